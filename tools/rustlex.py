"""Minimal Rust lexer + bracket matcher + item / match-arm / loop / closure slicer.

Everything this module returns is a *byte range of the original source text*;
nothing is re-printed from a parse tree.  That is what keeps the verified text
the code that runs: the generator only ever copies `src[a:b]`.
"""
import re
from dataclasses import dataclass, field

IDENT = re.compile(r'[A-Za-z_][A-Za-z0-9_]*')
NUMBER = re.compile(r'[0-9][A-Za-z0-9_]*(\.[0-9][A-Za-z0-9_]*)?')
WS = re.compile(r'\s+')
OPEN = {'(': ')', '[': ']', '{': '}'}
CLOSE = {')': '(', ']': '[', '}': '{'}


@dataclass
class Tok:
    kind: str   # ident | lifetime | num | str | char | punct | comment | ws
    text: str
    start: int
    end: int
    line: int


class LexError(Exception):
    pass


def lex(src):
    toks = []
    i, n, line = 0, len(src), 1
    while i < n:
        c = src[i]
        st = i
        if c.isspace():
            m = WS.match(src, i)
            i = m.end()
            kind = 'ws'
        elif src.startswith('//', i):
            j = src.find('\n', i)
            i = n if j < 0 else j
            kind = 'comment'
        elif src.startswith('/*', i):
            depth, i = 1, i + 2
            while i < n and depth:
                if src.startswith('/*', i):
                    depth += 1; i += 2
                elif src.startswith('*/', i):
                    depth -= 1; i += 2
                else:
                    i += 1
            kind = 'comment'
        elif c == '"' or (c == 'b' and src.startswith('b"', i)):
            i += 2 if c == 'b' else 1
            while i < n and src[i] != '"':
                i += 2 if src[i] == '\\' else 1
            i += 1
            kind = 'str'
        elif (c == 'r' or src.startswith('br', i)) and re.match(r'b?r#*"', src[i:i + 40]):
            m = re.match(r'b?r(#*)"', src[i:i + 40])
            hashes = m.group(1)
            i += m.end()
            j = src.find('"' + hashes, i)
            if j < 0:
                raise LexError('unterminated raw string')
            i = j + 1 + len(hashes)
            kind = 'str'
        elif c == "'":
            # lifetime or char literal
            m = re.match(r"'([A-Za-z_][A-Za-z0-9_]*)(?!')", src[i:i + 80])
            if m:
                i += m.end()
                kind = 'lifetime'
            else:
                i += 1
                while i < n and src[i] != "'":
                    i += 2 if src[i] == '\\' else 1
                i += 1
                kind = 'char'
        elif c == 'b' and src.startswith("b'", i):
            i += 2
            while i < n and src[i] != "'":
                i += 2 if src[i] == '\\' else 1
            i += 1
            kind = 'char'
        elif c.isalpha() or c == '_':
            m = IDENT.match(src, i)
            i = m.end()
            if src.startswith('r#', st) and False:
                pass
            kind = 'ident'
        elif c.isdigit():
            m = NUMBER.match(src, i)
            i = m.end()
            # `1..2` : NUMBER would not swallow '..' since it needs a digit after '.'
            kind = 'num'
        else:
            i += 1
            kind = 'punct'
        toks.append(Tok(kind, src[st:i], st, i, line))
        line += src.count('\n', st, i)
    return toks


class Source:
    """A lexed file with bracket matching over significant tokens."""

    def __init__(self, path, text):
        self.path = path
        self.text = text
        self.all = lex(text)
        self.toks = [t for t in self.all if t.kind not in ('ws', 'comment')]
        self.match = {}
        stack = []
        for i, t in enumerate(self.toks):
            if t.kind == 'punct' and t.text in OPEN:
                stack.append(i)
            elif t.kind == 'punct' and t.text in CLOSE:
                if not stack:
                    raise LexError('%s: unbalanced %s at line %d' % (path, t.text, t.line))
                j = stack.pop()
                if OPEN[self.toks[j].text] != t.text:
                    raise LexError('%s: mismatched bracket at line %d' % (path, t.line))
                self.match[j] = i
                self.match[i] = j
        if stack:
            raise LexError('%s: unclosed bracket at line %d' % (path, self.toks[stack[-1]].line))
        # line start offsets
        self.line_starts = [0]
        for m in re.finditer('\n', text):
            self.line_starts.append(m.end())

    def line_of(self, off):
        import bisect
        return bisect.bisect_right(self.line_starts, off)

    def is_p(self, i, ch):
        return 0 <= i < len(self.toks) and self.toks[i].kind == 'punct' and self.toks[i].text == ch

    def is_id(self, i, name=None):
        if not (0 <= i < len(self.toks)) or self.toks[i].kind != 'ident':
            return False
        return name is None or self.toks[i].text == name

    def span_text(self, a, b):
        """text from start of token a to end of token b (inclusive)."""
        return self.text[self.toks[a].start:self.toks[b].end]

    # ---------------------------------------------------------------- items
    def items(self, lo=0, hi=None):
        """Yield Item for each item between token indices [lo, hi) at one nesting level."""
        if hi is None:
            hi = len(self.toks)
        i = lo
        out = []
        while i < hi:
            start = i
            attrs = []
            # attributes
            while self.is_p(i, '#'):
                j = i + 1
                if self.is_p(j, '!'):
                    j += 1
                if not self.is_p(j, '['):
                    break
                attrs.append(self.span_text(i, self.match[j]))
                i = self.match[j] + 1
            if i >= hi:
                break
            # find keyword & end
            kw = None
            name = None
            j = i
            body_open = None
            while j < hi:
                t = self.toks[j]
                if t.kind == 'punct' and t.text in '([':
                    j = self.match[j] + 1
                    continue
                if t.kind == 'punct' and t.text == '{':
                    body_open = j
                    j = self.match[j]
                    # struct literal-less contexts: item ends here
                    break
                if t.kind == 'punct' and t.text == ';':
                    break
                if kw is None and t.kind == 'ident' and t.text in (
                        'fn', 'impl', 'struct', 'enum', 'trait', 'mod', 'macro_rules',
                        'use', 'const', 'static', 'type', 'union', 'extern'):
                    # `const fn`, `unsafe impl`, `pub(crate) fn`
                    if t.text == 'const' and self.is_id(j + 1, 'fn'):
                        j += 1
                        continue
                    kw = t.text
                    if kw == 'macro_rules':
                        # macro_rules ! name { ... }  or ( ... );
                        name = self.toks[j + 2].text if self.is_p(j + 1, '!') else None
                        k = j + 3
                        if self.is_p(k, '{'):
                            body_open = k
                            j = self.match[k]
                            break
                        elif self.is_p(k, '('):
                            j = self.match[k] + 1
                            continue
                    elif kw in ('fn', 'struct', 'enum', 'trait', 'mod', 'type', 'union', 'const', 'static'):
                        if self.is_id(j + 1):
                            name = self.toks[j + 1].text
                j += 1
            if j >= hi:
                j = hi - 1
            end = j
            # a struct/enum/fn-like item that ended with `}` may be followed by nothing;
            # tuple struct ends with ';' which we already hit.
            out.append(Item(self, kw, name, start, i, end, body_open, attrs))
            i = end + 1
        return out

    def find_fn_items(self):
        """All fn items in the file, recursively through impl/trait/mod blocks, with their context header."""
        res = []

        def walk(lo, hi, ctx):
            for it in self.items(lo, hi):
                if it.kw == 'fn':
                    it.ctx = ctx
                    res.append(it)
                elif it.kw in ('impl', 'trait', 'mod') and it.body_open is not None:
                    hdr = self.span_text(it.sig_start, it.body_open - 1)
                    walk(it.body_open + 1, self.match[it.body_open], ctx + [(it.kw, hdr, it)])
        walk(0, len(self.toks), [])
        return res


def norm(s):
    return re.sub(r'\s+', '', s)


@dataclass
class Item:
    src: Source
    kw: str
    name: str
    start: int        # first token incl. attributes
    sig_start: int    # first token after attributes
    end: int          # last token (`}` or `;`)
    body_open: int    # token index of `{` or None
    attrs: list
    ctx: list = field(default_factory=list)

    @property
    def text(self):
        return self.src.span_text(self.sig_start, self.end)

    @property
    def sig_text(self):
        if self.body_open is None:
            return self.text
        return self.src.span_text(self.sig_start, self.body_open - 1)

    @property
    def body_text(self):
        return self.src.span_text(self.body_open, self.end)

    @property
    def line(self):
        return self.src.toks[self.sig_start].line

    def has_cfg(self, needle):
        return any('cfg' in a and needle in a for a in self.attrs)


# -------------------------------------------------------------------- slicing inside bodies

def find_matches(src, lo, hi):
    """Token indices of `match` keywords between lo and hi (any depth), with (scrutinee_text, open_brace)."""
    out = []
    i = lo
    while i < hi:
        if src.is_id(i, 'match'):
            j = i + 1
            while j < hi:
                t = src.toks[j]
                if t.kind == 'punct' and t.text in '([':
                    j = src.match[j] + 1
                    continue
                if t.kind == 'punct' and t.text == '{':
                    break
                j += 1
            out.append((i, src.span_text(i + 1, j - 1), j))
        i += 1
    return out


@dataclass
class Arm:
    pat: str
    guard: str
    body: str
    pat_tok: int
    body_lo: int
    body_hi: int
    line: int
    braced: bool


def split_arms(src, open_brace):
    """Split the arms of the match whose `{` is at token index open_brace."""
    close = src.match[open_brace]
    arms = []
    i = open_brace + 1
    while i < close:
        # attributes on arms
        while src.is_p(i, '#') and src.is_p(i + 1, '['):
            i = src.match[i + 1] + 1
        pat_lo = i
        guard_lo = None
        j = i
        while j < close:
            t = src.toks[j]
            if t.kind == 'punct' and t.text in OPEN:
                j = src.match[j] + 1
                continue
            if t.kind == 'ident' and t.text == 'if' and guard_lo is None:
                guard_lo = j
            if t.kind == 'punct' and t.text == '=' and src.is_p(j + 1, '>') and src.toks[j + 1].start == t.end:
                break
            j += 1
        if j >= close:
            break
        arrow = j
        pat_hi = (guard_lo if guard_lo is not None else arrow) - 1
        pat = src.span_text(pat_lo, pat_hi)
        guard = src.span_text(guard_lo + 1, arrow - 1) if guard_lo is not None else ''
        b = arrow + 2
        if src.is_p(b, '{'):
            e = src.match[b]
            # `{ .. }` possibly followed by method chain – treat as non-braced then
            if src.is_p(e + 1, ',') or e + 1 == close or not (src.is_p(e + 1, '.') or src.is_p(e + 1, '?')):
                arms.append(Arm(pat, guard, src.span_text(b, e), pat_lo, b, e, src.toks[pat_lo].line, True))
                i = e + 1
                if src.is_p(i, ','):
                    i += 1
                continue
        k = b
        while k < close:
            t = src.toks[k]
            if t.kind == 'punct' and t.text in OPEN:
                k = src.match[k] + 1
                continue
            if t.kind == 'punct' and t.text == ',':
                break
            k += 1
        arms.append(Arm(pat, guard, src.span_text(b, k - 1), pat_lo, b, k - 1, src.toks[pat_lo].line, False))
        i = k + 1
    return arms


def find_loops(src, lo, hi):
    """(kw_tok, kind, header_text, body_open) for each for/while/loop between lo and hi, in source order."""
    out = []
    i = lo
    while i < hi:
        t = src.toks[i]
        if t.kind == 'ident' and t.text in ('for', 'while', 'loop'):
            # `for<'a>` HRTB is not a loop
            if t.text == 'for' and src.is_p(i + 1, '<'):
                i += 1
                continue
            j = i + 1
            while j < hi:
                u = src.toks[j]
                if u.kind == 'punct' and u.text in '([':
                    j = src.match[j] + 1
                    continue
                if u.kind == 'punct' and u.text == '{':
                    break
                j += 1
            if j < hi:
                out.append((i, t.text, src.span_text(i + 1, j - 1) if j > i + 1 else '', j))
        i += 1
    return out


def find_closure(src, lo, hi, name):
    """`let [mut] NAME = [move] |params| BODY;` → (let_tok, params_text, body_lo, body_hi, end_tok)."""
    i = lo
    while i < hi:
        if src.is_id(i, 'let'):
            j = i + 1
            if src.is_id(j, 'mut'):
                j += 1
            if src.is_id(j, name) and src.is_p(j + 1, '='):
                k = j + 2
                if src.is_id(k, 'move'):
                    k += 1
                if src.is_p(k, '|'):
                    p = k + 1
                    while not src.is_p(p, '|'):
                        if src.toks[p].kind == 'punct' and src.toks[p].text in OPEN:
                            p = src.match[p]
                        p += 1
                    params = src.span_text(k + 1, p - 1) if p > k + 1 else ''
                    b = p + 1
                    if src.is_p(b, '-') and src.is_p(b + 1, '>'):
                        # explicit return type: `|..| -> T { .. }`; the body is the block
                        q = b + 2
                        while not src.is_p(q, '{'):
                            if src.toks[q].kind == 'punct' and src.toks[q].text in '([':
                                q = src.match[q]
                            q += 1
                        b = q
                    if src.is_p(b, '{'):
                        e = src.match[b]
                        endt = e + 1 if src.is_p(e + 1, ';') else e
                        return (i, params, b, e, endt)
                    e = b
                    while not src.is_p(e, ';'):
                        if src.toks[e].kind == 'punct' and src.toks[e].text in OPEN:
                            e = src.match[e]
                        e += 1
                    return (i, params, b, e - 1, e)
        i += 1
    return None


def find_inline_closures(src, lo, hi):
    """All closure expressions `[move] |params| body` between lo and hi in source order.
    -> list of (first_tok, params_text, body_lo, body_hi).  A `|` starts a closure when the previous
    significant token cannot end an operand."""
    out = []
    i = lo
    while i < hi:
        if src.is_p(i, '|'):
            p = src.toks[i - 1]
            starts = (p.kind == 'punct' and p.text in '(,={;[>&') or (p.kind == 'ident' and p.text in ('move', 'return', 'else'))
            if starts:
                first = i - 1 if (p.kind == 'ident' and p.text == 'move') else i
                if src.is_p(i + 1, '|') and src.toks[i + 1].start == src.toks[i].end:
                    params, q = '', i + 1
                else:
                    q = i + 1
                    while not src.is_p(q, '|'):
                        if src.toks[q].kind == 'punct' and src.toks[q].text in OPEN:
                            q = src.match[q]
                        q += 1
                    params = src.span_text(i + 1, q - 1)
                b = q + 1
                # optional `-> T` before a braced body
                if src.is_p(b, '{'):
                    e = src.match[b]
                else:
                    e = b
                    while e < hi:
                        t = src.toks[e]
                        if t.kind == 'punct' and t.text in OPEN:
                            e = src.match[e] + 1
                            continue
                        if t.kind == 'punct' and t.text in ',;)]}':
                            break
                        e += 1
                    e -= 1
                out.append((first, params, b, e))
                i = b
                continue
        i += 1
    return out
