#!/usr/bin/env python3
"""summarise a tools/run_harmless.sh log: per patch the worst outcome over the checks that were run"""
import sys, re, collections
worst = collections.OrderedDict()
for line in open(sys.argv[1]):
    m = re.match(r'(\d+) \[(.*?)\] (C\d\d) rc=(\d)(.*)', line)
    if not m:
        continue
    i, f, p, rc, rest = m.groups()
    rc = int(rc)
    cur = worst.get(i, (0, f, ''))
    if rc >= cur[0]:
        worst[i] = (rc, f, rest.strip()[:110] if rc else cur[2])
names = {0: 'OK', 1: 'VIOLATION', 2: 'UNDECIDED'}
c = collections.Counter(names[v[0]] for v in worst.values())
print(dict(c))
for i, (rc, f, rest) in sorted(worst.items(), key=lambda kv: int(kv[0])):
    if rc:
        print(i, names[rc], f, rest)
