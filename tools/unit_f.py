"""Unit F plugin: `operands_<Variant>` spec functions, derived from the UNEXPANDED `enum Instr` in
src/ir/mod.rs by field *type* (not from the macro's skip_visit attributes, so independent of the macro):
the fields of a variant whose type is one of the eight entity-id types, in declaration order."""
import re
import mirrorgen

ENTITY = {'FunctionId': 'Func', 'TableId': 'Table', 'MemoryId': 'Memory', 'GlobalId': 'Global',
          'DataId': 'Data', 'ElementId': 'Element', 'TypeId': 'Type', 'LocalId': 'Local'}


def variants(g):
    from gen import LostAnchor
    src = g.source('src/ir/mod.rs')
    for it in src.items():
        if it.kw == 'enum' and it.name == 'Instr':
            body = src.text[src.toks[it.body_open].start + 1:src.toks[it.end].start]
            body = re.sub(r'//[^\n]*', '', body)
            body = re.sub(r'#\[[^\]]*\]', '', body)
            out = []
            for v in mirrorgen.split_top(body):
                m = re.match(r'^(\w+)\s*(\{(.*)\})?$', v.strip(), re.S)
                if not m:
                    raise LostAnchor('enum Instr: cannot parse variant %r' % v[:40])
                fields = []
                if m.group(3):
                    for f in mirrorgen.split_top(m.group(3)):
                        fn, ft = f.split(':', 1)
                        fields.append((fn.strip(), ft.strip()))
                out.append((m.group(1), fields))
            return out
    raise LostAnchor('enum Instr not found in src/ir/mod.rs')


def run(g, kw, block, specfile, specline):
    vs = variants(g)
    what = kw.get('what', 'operands')
    lines = []
    if what == 'operands':
        for name, fields in vs:
            evs = []
            for fn, ft in fields:
                if ft in ENTITY:
                    evs.append('Ev::%s(e.%s)' % (ENTITY[ft], fn))
                elif re.search(r'\b(%s)\b' % '|'.join(ENTITY), ft):
                    # a container of entity ids (Box<[..]>, Vec<..>, Option<..>): every element, in order
                    evs.append('@LIST:%s:%s' % (fn, ft))
            if any(e.startswith('@LIST') for e in evs):
                from gen import LostAnchor
                raise LostAnchor('variant %s has a list-of-entities field; operands() generator needs extending' % name)
            lines.append('pub open spec fn operands_%s(e: &%s) -> Seq<Ev> { Seq::<Ev>::empty()%s }' % (name, name, ''.join('.push(%s)' % x for x in evs)))
        lines.append('pub open spec fn operands(i: &Instr) -> Seq<Ev> {\n    match i {')
        for name, _ in vs:
            lines.append('        Instr::%s(e) => operands_%s(e),' % (name, name))
        lines.append('    }\n}')
    g.emit('\n'.join(lines), 'spec', 'tools/unit_f.py (from src/ir/mod.rs enum Instr)', 1, False)
