"""Which units decide which property, with the assumptions and the unclaimed clauses (DESIGN.md sections 4-6)."""

ASSUMPTIONS = {
    'A-sem': 'A-sem: WebAssembly semantics (modules equal up to consistent renumbering behave identically; dead code / nops / unreachable entities are unobservable) -- not expressible in a contract',
    'A-deps': 'A-deps: wasmparser decodes/validates and wasm-encoder encodes according to the spec; their enums correspond as validated by the mirror check',
    'A-arena': 'A-arena: id_arena::Arena<T> is an append-only sequence with ids (arena_id, index): alloc appends and returns (arena_id, old len); get/Index resolve exactly valid ids of this arena; iter yields ascending (assumed contract on the dependency, specs/arena_stubs.vrs)',
    'A-std': 'A-std: Vec/HashMap/HashSet/BTreeMap/sort/binary_search/mem::take/Option/Result behave as vstd or the stub says; hash containers keyed by Id<T> are finite maps/sets (IdHasher deterministic)',
    'A-iter': 'A-iter: a `for` loop over an iterator-adapter chain runs its body once per yielded item, in order, and the source yields what its stub says',
    'A-float': 'A-float: f32/f64 from_bits/to_bits round-trip bit-exactly on the target',
    'A-arith': 'A-arith: Verus checks executable arithmetic for overflow; `as` casts are truncation; usize is 64 bit',
    'A-limits': 'A-limits: no index space exceeds u32::MAX entries',
    'A-path': 'A-path: at emission the block stack holds the same sequence ids in the same order as the parse-time control stack did',
    'A-ext': 'A-ext: user code behind dyn CustomSection / on_parse / on_instr_loc / builder closures satisfies the contract written on the trait method or closure parameter',
    'A-extract': 'A-extract: the text verified is copied from /repo on every run by tools/gen.py; rules R1 (log/error-message macros), R2 (visibility, attributes dropped), R6 (contracts inserted, return value named) are the only edits; panic sites are modelled by the stated mode',
    'A-tree': 'A-tree: the instruction sequences of a function form a finite tree: no sequence is nested (transitively) in itself (a rank function exists); otherwise dfs_in_order would not terminate and the function could not be emitted',
    'A-verus': 'A-verus: soundness of Verus 0.2026.09.13 / Z3 and of vstd',
}

UNITS = {
    'unitA': {'spec': 'unitA.vrs'},
    'unitB': {'spec': 'unitB.vrs'},
    'unitD': {'spec': 'unitD.vrs', 'threads': 8},
    'unitI': {'spec': 'unitI.vrs'},
    'unitE': {'spec': 'unitE.vrs'},
    'unitJ': {'spec': 'unitJ.vrs', 'expanded': True},
    'unitN': {'spec': 'unitN.vrs'},
    'unitH': {'spec': 'unitH.vrs'},
    'unitK': {'spec': 'unitK.vrs'},
    'unitT': {'spec': 'unitT.vrs', 'expanded': True, 'rlimit': 60},
    'unitL': {'kind': 'kani', 'leaves': ['L.parse.size_prefix_len']},
    'unitF': {'spec': 'unitF.vrs', 'expanded': True, 'threads': 8},
    'unitC': {'spec': 'unitC.vrs', 'expanded': True, 'threads': 16, 'timeout': 2400},
}

PROPS = {
    'C01': {
        'units': ['unitC', 'unitD', 'unitB', 'unitI', 'unitT'],
        'obligations': ['C.', 'D.', 'B.', 'I.emit_wasm', 'T.'],
        'assumptions': ['A-sem', 'A-deps', 'A-arena', 'A-std', 'A-iter', 'A-float', 'A-arith', 'A-path', 'A-limits', 'A-extract', 'A-verus'],
        'rules': 'as C03, C04, C19 and C08 (units C, D, B, I)',
        'claimed': [
            'composite: behavioural equivalence is decomposed (DESIGN.md section 6, C01) into (a) every operator is re-emitted as the same operator on the renumbered entities (C03, unit C: 526 operator arms, control arms, memarg), (b) every entity keeps its attributes and initialisers (C04, unit D), (c) the two index maps are consistent bijections per index space (C19, unit B), (e) the emitter is driven through the in-order flattening of each body (unit T), (d) sections are emitted in dependency order over the unchanged module (C08/C12, unit I); observational equivalence then follows from A-sem (renumbering, dead-code and nop elision are unobservable)',
        ],
        'unclaimed': [
            'the execution semantics itself (A-sem) -- no interpreter is available in this sandbox, behaviour is compared structurally up to renumbering',
            'function bodies as wholes (instruction ORDER across a body, dfs_in_order), local slot assignment (emit_locals), br_table, data / element segment emitters, start section: bounded stand-ins only',
        ],
        'standins': [
            {'fn': 'per-operator round trip', 'argv': ['op'], 'bound': '537 operators, each in a skeleton module with operands found by validator search: the re-emitted body equals the input body up to renumbering', 'why': 'A-sem / whole-body order'},
            {'fn': 'control-flow round trip', 'argv': ['cf', '4', '3'], 'argv_thorough': ['cf', '5', '3'], 'bound_thorough': 'budget 5, depth 3 (2.4 million programs)', 'bound': 'all block/loop/if/br/br_if/br_table/return/unreachable shapes with budget 4 and depth 3: reachability-normalised operator sequence equal', 'why': 'dfs_in_order and dead-code elision are outside Verus'},
            {'fn': 'entities round trip', 'argv': ['entities'], 'bound': '18 modules covering every entity kind and attribute: canonical description of input and output equal', 'why': 'data / element / start emitters not under contract'},
            {'fn': 'local numbering / builder trees', 'argv': ['builder', '60'], 'argv_thorough': ['builder', '2500'], 'bound_thorough': '2505 trees x 6 construction orders', 'bound': '65 trees x 6 construction orders (see C15)', 'why': 'emit_locals / branch_target'},
        ],
    },
    'C02': {
        'units': ['unitI', 'unitB', 'unitE', 'unitD'],
        'obligations': ['I.emit_wasm', 'B.', 'E.', 'D.data.emit_data_count', 'D.data.count', 'D.elem.emit', 'D.data.emit'],
        'assumptions': ['A-deps', 'A-arena', 'A-std', 'A-iter', 'A-ext', 'A-extract', 'A-verus'],
        'rules': 'as C08, C19, C06 (units I, B, E)',
        'claimed': [
            'Module::emit_wasm (whole real function, unit I): every section emitter is called with the index spaces it reads already complete (types < imports < tables/memories/globals < exports/start/elements < code < data < names), so no get_*_index lookup of an emitted entity can miss',
            'index maps (unit B, real macro text): push assigns the next index once; get returns what push recorded',
            'data and element emitters (unit D): every live data segment gets an index whether or not a data-count section is written; every element segment gets the next index before its entry is written',
            'GC (unit E): the kept set contains the roots and is closed under "refers to", and exactly the unkept entities are deleted -- nothing that is still referenced is left without an emitted index',
        ],
        'unclaimed': [
            'validity of the bytes (needs the validator: an external judgement) and panic-freedom of the individual section emitters in no_panic mode: bounded stand-ins only',
        ],
        'standins': [
            {'fn': 'emit after parse / gc validates', 'argv': ['gc'], 'bound': '40 modules x {gc+emit, twice, re-parse}: no panic, output validates (see C06)', 'why': 'validity is the validator\'s judgement'},
            {'fn': 'emit after parse validates (all entity kinds)', 'argv': ['features'], 'bound': '55 modules x {emit, gc+emit}: output validates under the full and the minimal feature set (see C20)', 'why': 'as above'},
            {'fn': 'emit after builder edits', 'argv': ['builder', '60'], 'argv_thorough': ['builder', '2500'], 'bound_thorough': '2505 trees x 6 construction orders', 'bound': '65 built trees x 6 orders: emit does not panic, output validates', 'why': 'as above'},
            {'fn': 'emit after replace_* edits', 'argv': ['replace'], 'bound': '19 edits: emit does not panic, output validates', 'why': 'as above'},
            {'fn': 'emit with a name section for every entity kind', 'argv': ['names'], 'bound': '5 modules x {emit, gc+emit}: no panic (names of data / element segments, locals, imported entities resolve to emitted indices)', 'why': 'as above'},
            {'fn': 'emit with names / customs / configurations', 'argv': ['config'], 'bound': '96 configuration cases (see C14)', 'why': 'as above'},
        ],
    },
    'C05': {
        'units': ['unitK', 'unitI'],
        'obligations': ['K.', 'I.config.features', 'I.config.only_stable_features'],
        'assumptions': ['A-deps', 'A-std', 'A-extract', 'A-verus'],
        'rules': 'R1 R2 R3 (one match arm of the payload loop of Module::parse per obligation; `continue` -> `return Ok(())`) R4 (operator loop body of LocalFunction::parse) R6 R10 (`let loc = if let Some(ref f) = on_instr_pos {..}` ==> pick_loc: dyn Fn); panic mode: no_panic (a reachable panic!/unreachable!/unimplemented! is a failed obligation)',
        'claimed': [
            'Module::parse, 16 payload arms (real text, no_panic mode): every section is handed to the validator first and is interpreted only if the validator accepted that very section; a validator error is returned before anything is interpreted; the gate invariant (interpreted subset of accepted; every queued function body carries the validator that accepted its entry) is kept by every arm',
            'the `unreachable!()` behind unknown_section cannot be reached (the validator always rejects an unknown section id); the tag section is validated and then rejected with an error, never a panic',
            'LocalFunction::parse, operator loop body (real text): an operator reaches append_instruction only after the function validator accepted it at its position; otherwise the step fails and the IR is untouched',
            'ModuleConfig::get_wasmparser_wasm_features / only_stable_features (unit I): the feature set handed to parser and validator is exactly the finished proposals, plus multi-memory, memory64 and threads iff not only_stable_features',
        ],
        'unclaimed': [
            'totality of the section interpreters themselves (parse_types .. parse_elements, append_instruction arms: unwraps of validated indices, unimplemented! on operators of proposals that are not enabled) -- proved in absent mode only (units C, D); completeness (every valid module of the supported features is accepted); stack depth; termination: bounded stand-in only',
            'that the validator is sound and complete for the WebAssembly spec (A-deps)',
        ],
        'standins': [
            {'fn': 'Module::parse as a gate, end to end', 'argv': ['gate'], 'argv_thorough': ['gate', '100000'], 'bound_thorough': 'every truncation and 6 mutations of every byte of every corpus module',
             'bound': '62 corpus modules (every supported proposal incl. multi-memory, memory64 with i64 global offsets, threads, tail calls, simd) and, for each, every truncation of the first/last 400 bytes and 6 single-byte mutations of each of the first 400 bytes (~10^5 byte strings) x {default, only_stable_features}: walrus accepts exactly what an independent wasmparser Validator with the same feature set accepts, and never panics; tag section / tag import / unknown section id / component header are rejected with an error; only_stable_features rejects exactly the multi-memory, memory64 and threads modules; 1 000 / 20 000 / 200 000 nested blocks give a verdict (no stack overflow)',
             'why': 'whole-module composition, recursion depth and completeness are not contract-expressible per function'},
        ],
    },
    'C20': {
        'units': ['unitC', 'unitD'],
        'obligations': ['C.ir.InstrSeqType', 'C.ctx.', 'C.emit.', 'C.ty.', 'D.data.emit_data_count', 'D.data.count', 'D.data.emit', 'D.elem.emit'],
        'assumptions': ['A-deps', 'A-std', 'A-extract', 'A-verus'],
        'rules': 'as C03 (unit C)',
        'claimed': [
            'InstrSeqType::existing (real): a block signature that fits the inline MVP form (no params, at most one result) is ALWAYS represented as Simple -- never as a type index --, otherwise an existing live non-entry type is used; ValidationContext push_control* (real) build block types only through it',
            'Emit::start_instr_seq / block_type (real, unit C): Simple(None) -> empty block type, Simple(Some(t)) -> the inline value type, MultiValue(id) -> that type\'s index: the encoding class of every block type is the one parsed',
            'operator arms (C03): call_indirect / memory.size / memory.grow / table and memory immediates are re-emitted with the same table / memory entity (index 0 stays index 0 up to renumbering of imports-first index spaces)',
            'ModuleData::emit_data_count (whole real function, unit D): the data-count section is written exactly when some live segment is passive or some function uses memory.init / data.drop -- never otherwise --, with the number of live segments; every live segment gets its index either way',
            'ModuleElements::emit loop body + its nested emit_elem (real, unit D): a function-index item list stays a function-index list, expressions stay expressions of the same reference type; an active segment on table 0 carries no explicit table index (the MVP encoding), any other table its index',
        ],
        'unclaimed': [
            'that wasm-encoder chooses the flag byte from exactly these arguments (A-deps); memory index 0 on active data segments (wasm-encoder decides the encoding from the index)',
            'that wasm-encoder picks single-byte encodings for index 0 (A-deps)',
        ],
        'standins': [
            {'fn': 'feature escalation end to end', 'argv': ['features'],
             'bound': '55 modules (15 written for this property: MVP modules with offset element segments, data without bulk ops, data-only / imports-only modules, result-typed loops/blocks/ifs with a matching function type declared, memory.size/grow, start + imported-global initialisers; one module needing exactly one proposal for each of bulk-memory (passive elem, passive data, active + data.drop), reference-types, multi-value, sign-extension, saturating conversions, mutable globals; plus the entities and gc corpora) x {emit, gc+emit} x 10 proposals: whatever proposal the input validates without, the output validates without, also all of them together; no data-count section unless bulk-memory is needed and none lost when it is; MVP input => every element segment flag 0; reserved table/memory bytes single zero bytes',
             'why': 'encodings are chosen inside wasm-encoder; composition of the loops (A-iter)'},
        ],
    },
    'C11': {
        'units': ['unitH', 'unitC'],
        'obligations': ['H.map.', 'H.emit.', 'H.InstrLocId', 'C.emit.', 'C.ir.InstrLocId'],
        'assumptions': ['A-deps', 'A-std', 'A-iter', 'A-arith', 'A-extract', 'A-verus'],
        'rules': 'R1 R2 R3b (visit_instr prefix) R4 (loop bodies; loop-carried locals by value) R6 R10 (`&wasm[leb_len..]` ==> tail_from); panic mode: absent',
        'claimed': [
            'Emit::visit_instr prefix / start_instr_seq / end_instr_seq (unit C, real text): each visited instruction, and each `else` / `end`, is recorded with its InstrLocId at the encoder\'s current byte length BEFORE its opcode is written',
            'collect_non_default_code_offsets body (real): a pair is shifted by the body\'s output offset and kept iff its location is not the default one -- inserted instructions appear in no pair',
            'ModuleFunctions::emit, second loop body (real): a function\'s reported range is exactly [entry start, entry start + size-prefix length + body length), the next entry starts where it ends, and its pairs are shifted by entry start + size-prefix length',
            'ModuleFunctions::emit, first loop body (real): the size-prefix length is the serialised length minus the body length and the section receives exactly the body bytes',
        ],
        'unclaimed': [
            'the tail of ModuleFunctions::emit (sort of the ranges, code_section_start = first entry - LEB length of the function count; fixed by F7) and that wasm-encoder re-encodes the same size prefix: bounded stand-in only',
            'LocalFunction::parse recording input offsets (on_instr_pos callback path): bounded stand-in only',
        ],
        'standins': [
            {'fn': 'CodeTransform end to end', 'argv': ['offsets'],
             'bound': '11 module shapes (1..130 functions, bodies on both sides of the 128-byte size-prefix boundary, block/if/else/br in every body) x {unchanged, instructions inserted at the front of every body, gc after deleting every second export}: code_section_start is where the code section payload starts, the sorted ranges equal the emitted entries, every pair points at the start of the same operator in input and output, no inserted instruction in any pair',
             'why': 'iterator adapters, rayon map and wasm-encoder internals'},
        ],
    },
    'C10': {
        'units': ['unitH', 'unitL'],
        'obligations': ['H.conv.', 'H.gen.', 'L.'],
        'assumptions': ['A-deps', 'A-std', 'A-arith', 'A-extract', 'A-verus'],
        'rules': 'R1 R2 R6 R10 (`slice.binary_search_by_key(&k, |i| i.0)` ==> bs_* stubs with the std contract on a sorted table; the `&dyn Fn` comparator selection ==> bs_range over the two comparator closures, which are verified separately); panic mode: absent',
        'claimed': [
            'CodeAddressGenerator::find_address (whole real function): an address that is the start of an input instruction is always classified as that instruction; one byte before an instruction as its edge; otherwise the function whose input range contains it under the requested end preference, with the offset from that function\'s start, or the function\'s end; otherwise Unknown -- never a different instruction or function',
            'the two range comparator closures (real): inclusive = (start, end], exclusive = [start, end)',
            'Kani leaf (complete, full usize domain, unwinding assertions on): the statement of LocalFunction::parse that computes the length of a function\'s size prefix -- which places the start of its input range -- equals the LEB128 length of the body size for every size >= 1',
            'CodeAddressConverter::find_address (whole real function): an instruction address maps to the output offset recorded for exactly that instruction id, an in-function offset / function end to that function\'s emitted range; an instruction or function with no output entry yields None (tombstoned by the caller) -- never a neighbouring entry',
        ],
        'unclaimed': [
            'the gimli-driven conversion (debug/mod.rs, dwarf.rs, units.rs: line programs, DIE high_pc, rebasing by code_section_start) and the construction / sortedness of the tables (iterator adapters + sort_by_key): bounded stand-in only',
        ],
        'standins': [
            {'fn': 'DWARF conversion end to end', 'argv': ['dwarf'],
             'bound': 'synthesized DWARF v4 and v5 (v5 rows name file 0), one subprogram and one row per instruction of each of 5 functions that walrus reorders (one with a 2-byte size prefix, one with an unreachable tail that walrus drops), one sequence per function and one sequence spanning all functions, x {unchanged, gc removing a function in the middle, instructions inserted at the front of every body} x 3 size mixes (36 cases): every row lands on the start of the same operator of the same function, every subprogram range covers the same function and ends with it, rows and subprograms of removed code are dropped or point outside all emitted code',
             'why': 'gimli read/write machinery is outside Verus'},
        ],
    },
    'C13': {
        'units': ['unitN'],
        'assumptions': ['A-deps', 'A-arena', 'A-std', 'A-iter', 'A-extract', 'A-verus'],
        'rules': 'R1 (warn!) R2 R4 (loop bodies, `continue` -> `return Ok(())`, suffix Ok(())) R4c R6; panic mode: absent',
        'claimed': [
            'parse_name_section, one loop body per name map (functions, types, memories, tables, data segments, element segments, globals; real text): the entity that the INPUT index denotes in the parse-time index map gets exactly that name; no other entity of any kind changes; an index that denotes nothing changes nothing; a decoding error aborts with nothing changed',
            'local names (two nested loop bodies, real text): the function index is resolved through the function map and each local index through THAT function\'s local map; empty names are skipped only under generate_synthetic_names_for_anonymous_items',
        ],
        'unclaimed': [
            'emit_name_section (iterator-adapter chains over hash maps, sort_by_key, wasm_encoder name maps) and the module-name arm: bounded stand-in only',
            'the composition of the loops (A-iter) and that parse_name_section runs after all index maps are complete (fixed by F8, covered by the stand-in)',
        ],
        'standins': [
            {'fn': 'parse_name_section + emit_name_section end to end', 'argv': ['names'],
             'bound': 'hand-written modules with full and partial name sections for every entity kind (imported and local entities, functions reordered by size, locals compacted, entities removed by gc before named ones, duplicate type merging) x {emit, gc+emit}: every name of the output is attached to the entity that carried it in the input (entities identified independently of indices)',
             'why': 'emit_name_section is iterator adapters over hash maps end to end'},
        ],
    },
    'C15': {
        'units': ['unitJ', 'unitT'],
        'obligations': ['J.ir.', 'J.fb.', 'J.sb.', 'J.gen.', 'J.lf.', 'C.ir.from.', 'T.'],
        'assumptions': ['A-arena', 'A-std', 'A-ext', 'A-extract', 'A-verus'],
        'rules': 'R1 (Vec::insert index check modelled as divergence, absent mode) R2 R6 (implgen, closurespec) R10 (`f(&mut builder)` ==> call_seq_fn(f, &mut builder): user closure by assumed contract `api_step` + uninterpreted effect); panic mode: absent',
        'claimed': [
            'InstrSeqBuilder::instr / instr_at (real): exactly the given instruction is appended / inserted at `position` in the sequence being built; every other sequence, the function type, entry and name are unchanged',
            'every per-instruction builder method generated by #[walrus_instr] (96 methods, rustc expansion): `<snake(V)>(fields)` appends exactly Instr::V(V{fields}) and `<snake(V)>_at(position, fields)` inserts it -- variant and field list taken from the UNEXPANDED enum in src/ir/mod.rs',
            'block / block_at / loop_ / loop_at / if_else / if_else_at (real): a fresh dangling sequence of the requested type per arm (consequent before alternative), the closures run on them in order, then Block / Loop / IfElse naming exactly those sequences is appended / inserted',
            'FunctionBuilder::new / without_entry / func_body / func_body_id / instr_seq / dangling_instr_seq, InstrSeq::new, LocalFunction::new, FunctionBuilder::local_func / finish; i32_const .. f64_const; all From<V> for Instr and From<..> for InstrSeqType conversions',
            'emission order (unit T): the traversal that drives the emitter yields exactly the in-order flattening of the built tree',
        ],
        'unclaimed': [
            'branch depth computation (branch_target: iterator chain), local slot assignment (emit_locals) and the composition traversal + Emit hooks (unit C proves the per-instruction and block open/close steps for parsed and built functions alike, C03): bounded stand-in only',
        ],
        'standins': [
            {'fn': 'builder -> emit end to end', 'argv': ['builder'], 'argv_thorough': ['builder', '2500'], 'bound_thorough': '2505 trees x 6 construction orders',
             'bound': '155 instruction trees (5 hand-written shapes: a dangling sequence attached twice with a branch to itself, parameters allocated in reverse id order, unused locals between used ones, branches to every enclosing depth, loops first in a sequence; 150 pseudo-random trees of depth <= 3) x 5 construction orders (closure constructors; append; instr_at(0) in reverse; middle insertion; dangling-first): the decoded body equals an independent in-order flattening, parameters at their positions, one distinct declared slot per used local, unused locals not declared',
             'why': 'dfs_in_order (while-let + labelled continue) and branch_target / emit_locals (iterator chains, hash maps) are outside Verus'},
        ],
    },
    'C18': {
        'units': ['unitJ'],
        'obligations': ['J.replace_', 'J.lf.', 'J.fb.', 'J.func.', 'J.import.', 'J.export.'],
        'assumptions': ['A-arena', 'A-std', 'A-iter', 'A-ext', 'A-extract', 'A-verus'],
        'rules': 'R1 R2 R6 (closurespec on `.map(|e| e.id())`) R10 (`builder_fn((&mut b, &args))` ==> call_builder_fn; `params.iter().map(|ty| self.locals.add(*ty)).collect()` ==> add_locals_for summary); panic mode: absent',
        'claimed': [
            'Module::replace_imported_func (whole real function): on success the returned id is fid; funcs[fid] keeps its id and name and becomes a local function whose type has the same parameters and results, with one argument local per parameter; every other function, the liveness of all functions, all exports and the rest of the module are unchanged; exactly one import -- one that imported fid -- is deleted; on error nothing changed',
            'Module::replace_exported_func (whole real function): on success a NEW local function with the same signature and the same argument locals is added; exactly one export that named fid is retargeted to it (name and id kept), every other export, every import, every existing function (the original included) and the rest of the module are unchanged; on error nothing changed',
        ],
        'unclaimed': [
            'that the emitted module is valid and that callers / table entries / exports observably reach the new body (needs emission, C03/C19): bounded stand-in only',
        ],
        'standins': [
            {'fn': 'replace_* + emit end to end', 'argv': ['replace'],
             'bound': '5 modules (same-name overloaded imports, three imports sharing a type with the victim not first, a function exported twice and used by callers, a table and start, imported globals/memories around) x every imported function and every exported local function (19 edits): output validates; exactly the right import disappears; exports / table entries / start / call sites resolve to the new body exactly where they named the replaced function; for export replacement the original body stays for internal users and exactly one export is retargeted',
             'why': 'observing the rewiring needs the emitted binary'},
        ],
    },
    'C06': {
        'units': ['unitE', 'unitF'],
        'assumptions': ['A-sem', 'A-deps', 'A-arena', 'A-std', 'A-iter', 'A-ext', 'A-extract', 'A-verus'],
        'rules': 'R1 R2 R4 (loop bodies; `continue` -> `return`) R4c R5e R6 R10 (`UsedVisitor{..}; dfs_in_order(..)` ==> scan_body summary; `iter().for_each(push_func)` ==> push_all_funcs summary); panic mode: absent',
        'claimed': [
            'Roots::push_* (real): mark + schedule, worklist discipline (everything on a stack is marked), nothing un-marked',
            'UsedVisitor id hooks (real): every id reported by the traversal (unit F: every entity operand) becomes used',
            'root loop bodies of Used::new (real): exports, active data segments, declared element segments, active element segments of imported tables are marked',
            'pop loop bodies of Used::new (real), one per entity kind: after scanning x everything x refers to is marked (function: its type + body operands; table: its active segments; memory: its active data segments; global: its initialiser; data: memory + offset global; element: every function / global item of either reference type, table, offset global)',
            'unit F (C16): the generated Visit impls report every entity operand of every instruction to the id hooks (so a body scan sees every reference)',
            'lemma_worklist_closure / lemma_closed_at_exit: those body contracts + empty stacks at exit give closure of the used set under the reference relation',
            'Used::new AS A WHOLE (real text; the outer fixpoint loop is the real loop with an inductive invariant, every inner loop is replaced by the fold of its verified body): every root of the property statement -- exports, start, active data segments, declared element segments, active element segments of imported tables -- is kept, and the kept set is closed under "refers to" for every entity kind; the wabt tail (one extra memory) keeps both',
            'gc::run (whole real function, loops by summary) and each of its nine loop bodies: an entity is live afterwards iff it was live and marked used (imports: iff the entity they import is used); nothing else changes',
        ],
        'unclaimed': [
            'behavioural equivalence itself (A-sem): the contract proves "kept set closed under references and containing the roots", not execution equality',
            'the fold summaries of the inner loops of Used::new (each is the worklist argument over its verified body: A-iter), termination of the fixpoint loop, dfs_in_order reaching every instruction (units F, T / C16), custom-section roots (dyn CustomSection, A-ext), memory back-links naming live active segments (precondition, established by unit D parse bodies)',
            'validity of the emitted module after gc: bounded stand-in only',
        ],
        'standins': [
            {'fn': 'Used::new + gc::run + emit end to end', 'argv': ['gc'],
             'bound': '40 modules (one per reference edge kind: each instruction operand class, const exprs, element items of both reference types, table/memory back-links, imported tables, declared segments, start): output validates, same exports, kept entities per kind == independently computed reachable set of the input, nothing unreachable in the output, second run and re-parsed run change nothing',
             'why': 'whole-function composition over iterator adapters and the visitor traversal is outside one Verus unit'},
        ],
    },
    'C07': {
        'units': ['unitE'],
        'assumptions': ['A-deps', 'A-arena', 'A-std', 'A-iter', 'A-extract', 'A-verus'],
        'rules': 'R1 R2 R4 R4c R6; panic mode: absent',
        'claimed': [
            'gc::run (whole real function, loops by summary): every entity not marked used is deleted from its arena, every import whose entity is not used is deleted; gc::unused body: an id is scheduled iff it is not in the used set',
            'Roots::push_* / pop bodies: `grows_from` -- whatever becomes newly marked was pushed by a body whose contract names it (no marking outside the reference relation inside these bodies)',
        ],
        'unclaimed': [
            'least-fixpoint (precision) of Used::new as a whole and idempotence: bounded stand-in only (an upper bound on a set built by a worklist needs the whole-function invariant with fold summaries)',
        ],
        'standins': [
            {'fn': 'precision + idempotence end to end', 'argv': ['gc'],
             'bound': '40 modules with mixes of reachable / unreachable entities of every kind: independent reachability on the emitted binary finds nothing unreachable (one memory tolerated when data segments are kept); kept counts == reachable counts of the input; second gc run and gc of the re-parsed output change nothing',
             'why': 'see unclaimed'},
        ],
    },
    'C12': {
        'units': ['unitI', 'unitE'],
        'obligations': ['I.emit_wasm', 'E.gc.run', 'E.gc.sweep'],
        'assumptions': ['A-deps', 'A-std', 'A-iter', 'A-ext', 'A-extract', 'A-verus'],
        'rules': 'R1 R2 R4c (the custom-section loop of emit_wasm replaced by its summary contract) R6; panic mode: absent',
        'claimed': [
            'Module::emit_wasm (whole real function): leaves every field of the module as it was, custom sections included (emit twice / repeated emit); writes, after all standard sections, exactly one section per live non-.debug custom section in arena order with the same name and bytes',
            'gc::run (whole real function, unit E) and its sweep bodies leave module.customs untouched',
        ],
        'unclaimed': [
            'raw capture at parse (Payload::CustomSection arm) and the body of the emission loop (dyn CustomSection, str::starts_with): assumed summary + bounded stand-in',
            'ModuleCustomSections (dyn Any downcasts): bounded stand-in only',
        ],
        'standins': [
            {'fn': 'custom-section capture, emission loop body, gc', 'argv': ['customs'],
             'bound': '12 layouts (0..4 custom sections, every placement between standard sections, duplicate/empty/look-alike names, 0..256-byte payloads) x {emit, gc+emit, emit twice, gc+emit twice}: (name, bytes) list of the output equals the input',
             'why': 'trait objects / Any downcasts are outside Verus'},
        ],
    },
    'C14': {
        'units': ['unitI'],
        'assumptions': ['A-deps', 'A-std', 'A-ext', 'A-extract', 'A-verus'],
        'rules': 'R1 R2 R4c R6; panic mode: absent',
        'claimed': [
            'ModuleConfig setters (generate_dwarf, generate_name_section, generate_producers_section, only_stable_features, strict_validate, preserve_code_transform): each changes exactly its switch (generate_dwarf also turns on code-transform preservation), whole-struct frame',
            'get_wasmparser_wasm_features: exactly the finished proposals, plus multi-memory, memory64 and threads iff not only_stable_features',
            'Module::emit_wasm: a name / producers / DWARF section is written only if its switch allows it, and no other section depends on the switches',
        ],
        'unclaimed': [
            'ModuleProducers::field (merge, "exactly once"), parse_producers_section, on_parse call count, DWARF capture: bounded stand-in only (string comparison loops / callbacks)',
        ],
        'standins': [
            {'fn': 'producers merge, DWARF carry-over, on_parse callback, switches end to end', 'argv': ['config'],
             'bound': 'all 2^4 switch combinations (names, producers, DWARF, preserve_code_transform) x inputs with/without name, producers (3 variants), DWARF sections (192 cases) + 3 invalid inputs; 4 consecutive round trips for the producers clause',
             'why': 'string loops and boxed callbacks are outside Verus'},
        ],
    },
    'C08': {
        'units': ['unitI'],
        'obligations': ['I.emit_wasm'],
        'assumptions': ['A-deps', 'A-std', 'A-iter', 'A-extract', 'A-verus'],
        'rules': 'R1 R2 R4c R6; panic mode: absent',
        'claimed': [
            'Module::emit_wasm leaves the module unchanged (every field equal, custom sections restored), so a repeated emit starts from the same state; the bytes are a function of the sections written',
        ],
        'unclaimed': [
            'that every order reaching the output is a function of the abstract state (type sort, function sort, locals layout, name maps): not under contract yet -> bounded stand-in',
            'byte identity across processes and the fixpoint clause: bounded stand-in only',
        ],
        'standins': [
            {'fn': 'repeated emission and fixpoint', 'argv': ['emit-twice'],
             'bound': '19 modules (entity corpus + custom sections): three emits of one Module value byte-identical; parse(emit(m)) emits the same bytes',
             'why': 'whole-pipeline determinism is not a per-function property'},
        ],
    },
    'C04': {
        'units': ['unitD'],
        'assumptions': ['A-deps', 'A-arena', 'A-std', 'A-iter', 'A-float', 'A-limits', 'A-extract', 'A-verus'],
        'rules': 'R1 R2 R4 (one function per loop body of parse_* / emit; filter predicates lifted) R6 R9 (macro_rules with contracts); panic mode: absent',
        'claimed': [
            'memories, tables, globals: add_local / add_import store exactly the attributes given (whole record), parse body creates one record per section item with the item\'s attributes and pushes its id once; emit body rebuilds the encoder type from the record field by field and assigns the next index',
            'imports: one import record + one entity per entry, names kept, entity and import record point at each other, kind-specific type kept (limits, shared, 64-bit, page size, element type, mutability); emit arm per kind rebuilds the entity type from the record (F3 failed here before the fix)',
            'exports: record keeps name and denotes the entity the input index denotes; emit writes name, kind and the emit-time index',
            'constant expressions (global initialisers): eval / to_wasmencoder_type against the denotation of each operator; lemma: same constant bit for bit / same entity through both maps',
            'imported-vs-local partition: the emit filters keep exactly the records without import back-pointer (predicates lifted and verified)',
            'data segments: parse body -- the record of THIS segment gets exactly the decoded bytes, mode, memory (through the parse-time map) and offset constant, every other record is untouched, an active segment is registered on its memory and on no other; emit body -- one entry with the same mode, bytes, memory (emit-time map) and offset constant',
            'element segments, emit side: one entry per segment with the same mode, table, offset constant, item-list kind and items mapped one by one through the emit-time maps',
            'element segments, parse side (outer loop body + both item-loop bodies, real text): one record per segment with the next id, pushed once; declared / passive / active kept; table (index defaulting to 0) and offset constant through the parse-time maps; function-index lists and expression lists kept as such, item by item; an active segment is registered on its table and on no other',
            'reserve_data body: one empty passive placeholder per reserved index',
        ],
        'unclaimed': [
            'start function, function signatures / type section: not under contract yet; bounded stand-in (entities battery)',
            'the iteration protocol of section readers and arena iterators (A-iter)',
        ],
        'standins': [
            {'fn': 'start / types and the composition of all loop bodies (whole module structure)', 'argv': ['entities'],
             'bound': '19 hand-written modules covering imported/local x 32/64-bit x shared x every element/data segment encoding, start functions that move; canonical structure (indices replaced by identity labels) compared before/after the round trip',
             'why': 'nested iterator loops of parse_elements; A-iter composition'},
        ],
    },
    'C19': {
        'units': ['unitB', 'unitD'],
        'obligations': ['B.', 'D.mem.parse', 'D.table.parse', 'D.global.parse', 'D.import.parse', 'D.export.parse', 'D.mem.emit', 'D.table.emit', 'D.global.emit', 'D.import.emit', 'D.export.emit', 'D.data.parse', 'D.data.reserve', 'D.data.count', 'D.data.emit_data_count', 'D.elem.parse.body', 'D.elem.emit.body', 'D.func.declare'],
        'assumptions': ['A-deps', 'A-std', 'A-iter', 'A-limits', 'A-extract', 'A-verus'],
        'rules': 'R1 R2 R4 R6 R9; panic mode: absent',
        'claimed': [
            'parse-time map: push_K appends exactly the id and returns its position, touching no other index space; get_K(i) is Ok(ids[i]) iff i in range (macro-generated methods verified through the macro itself, rule R9)',
            'emit-time map: push_K assigns the next free index (= number of ids pushed so far) and touches no other space; set_data_index',
            'push sites: every parse loop body (memories, tables, globals, imports, exports, data, elements, reserve_data) pushes the id of the record it just created, once, into its own space (imports: the space of the import kind); every emit loop body pushes the entity whose entry it appends, in the same iteration; emit_data_count assigns every live data segment its index',
        ],
        'unclaimed': [
            'get_K_index bodies (Option::cloned().unwrap_or_else(|| panic!)): assumed contract',
            'push_local / locals index space, type push sites (parse_types), function emit order; hand-off of the maps to custom sections (unit I proves the call order only)',
        ],
        'standins': [
            {'fn': 'both maps as extension code sees them', 'argv': ['maps'],
             'bound': '3 modules (imports in front of local entities in every index space, functions that walrus reorders, locals of four value types, data segments with and without a data-count section, passive / active segments, duplicate types) x {emit, gc+emit}: inside on_parse every index of every index space of the INPUT (incl. every local of every function) resolves to an entity with that index\'s identifying attribute and out-of-range local indices do not resolve; inside CustomSection::data every live entity\'s reported index carries that entity\'s attribute in the OUTPUT binary; on_parse runs once',
             'why': 'the maps are filled across many functions and handed over through dyn CustomSection / boxed callbacks'},
        ],
    },
    'C16': {
        'units': ['unitF', 'unitT'],
        'obligations': ['F.', 'T.'],
        'assumptions': ['A-arena', 'A-ext', 'A-iter', 'A-tree', 'A-extract', 'A-verus'],
        'rules': 'R1 R2 R3 (Instr::visit_mut per arm) R6 R8 (trait default bodies verified in a sub-trait, trait itself as declarations+contracts); operands(x) generated from the field TYPES of the unexpanded enum Instr',
        'claimed': [
            'for every Instr variant: the generated Visit and VisitMut impls report exactly operands(x) -- the entity-id fields by type, in declaration order, each once -- to any visitor (observation log defined by the id-hook contracts)',
            'Instr::visit / Instr::visit_mut (dispatchers): per-instruction hook + field visit report operands(x) exactly once',
            'default per-instruction hooks of Visitor and VisitorMut leave the log and the operands unchanged (F5 failed here before the fix)',
            'InstrSeq::visit / visit_mut: the sequence-level type operand, once, only for multi-value sequences',
            'no recursion among generated impls and hooks: Verus accepts the file without any `decreases` (it rejects recursion without one)',
            'dfs_in_order (unit T, real text of both loop bodies; labelled continues mapped to return values, R4): one instruction step shows the visitor exactly that instruction and either goes on or schedules (resume point, alternative, consequent) and pauses; one iteration of the outer loop preserves  trace + todo(stack) == const ; lemma: with the stack starting at [(start, 0)] and ending empty the trace is exactly the in-order flattening -- Start, every instruction in order, every nested sequence in full right after its owner (consequent first), End -- each exactly once',
            'dfs_pre_order_mut (unit T, real text of both loop bodies): one step shows the visitor exactly that instruction and schedules the sequences nested in it (as the visitor left it), consequent on top; one iteration traverses the popped sequence completely and exactly once (Start, every instruction in order, End), schedules its nested sequences each once and touches no other sequence; no recursion (the unit would not compile / Verus would demand a decreases clause)',
        ],
        'unclaimed': [
            'the composition of the loops of both drivers (`while let Some(..) = stack.pop()`, `for .. in iter().enumerate().skip(index)`, `for .. in &mut seq.instrs`: A-iter) and well-foundedness of sequence nesting (A-tree); a global exactly-once theorem for dfs_pre_order_mut (its step and iteration contracts are proved, the induction over the worklist is not written): bounded stand-ins',
            'actual call-stack usage at nesting depth 10^5 (only non-recursion is expressible)',
        ],
        'standins': [
            {'fn': 'dfs_in_order / dfs_pre_order_mut (src/ir/traversals.rs) with a recording visitor, operand counts', 'argv': ['visit'],
             'bound': 'one module per accepted operator sample (3 immediates each, ~640 modules): reported entity events by kind == entity operands of the decoded input body, for both traversals',
             'why': 'drivers use while-let, labelled continue and iterator adapters (outside Verus)'},
            {'fn': 'dfs_in_order event trace (order, start/end nesting, exactly once)', 'argv': ['visit-cf', '4', '3'], 'argv_thorough': ['visit-cf', '5', '3'], 'bound_thorough': 'budget 5, depth 3 (2.4 million programs)',
             'bound': 'all 89021 control-flow programs with <= 4 nodes and nesting <= 3: trace == in-order flattening of the body; mutable traversal visits the same number of instructions',
             'why': 'same'},
            {'fn': 'dfs_in_order / dfs_pre_order_mut call-stack use', 'argv': ['visit-deep', '100000'],
             'bound': 'nesting depth 10^5 through block, loop, if-then and if-else arms, both traversals, on a 2 MiB thread stack',
             'why': 'same (recursion in the drivers would be rejected by Verus if they could be extracted)'},
        ],
    },
    'C03': {
        'units': ['unitC', 'unitT'],
        'assumptions': ['A-deps', 'A-arena', 'A-std', 'A-iter', 'A-float', 'A-arith', 'A-path', 'A-extract', 'A-verus'],
        'rules': 'R1 R2 R3 (one obligation per match arm) R6 R7 (emit arms lifted to spec fns, exec arms re-verified against them); panic mode: absent',
        'claimed': [
            'for every operator arm of append_instruction (all immediates symbolic): the instruction appended is emitted by Emit::visit_instr as mirror(op) under the renumbering sigma (same opcode, constants bit for bit, alignment/offset/lane/shuffle immediates, every index operand through the two index maps, labels through the block stack)',
            'unreachable code and nop elision: nothing is appended in an unreachable frame, Nop appends nothing',
            'block structure: Block/Loop/If/Else/End create, close and attach sequences as the input nests them; sequence type denotes the block type signature; emit writes block/loop/if/else/end around sequences',
            'memarg: align round trip (log2 of 1<<a), 64-bit offset kept',
            'instruction ORDER (unit T): dfs_in_order hands the emitter the in-order flattening of the tree the parser built (every instruction once, nested sequences right after their owner, consequent before alternative, start/end around every sequence)',
        ],
        'unclaimed': [
            'composition of the per-step contracts into whole bodies: the traversal theorem (unit T) gives the order in which Emit sees instructions and sequence boundaries; that the emitter hooks are the ones unit C verifies is by name (A-iter for the two loops)',
            'BrTable parse arm (iterator over BrTableTargets) and Emit BrTable arm / branch_target (iterator adapter chains): assumed (A-iter), not verified',
            'block_param_tys / block_result_tys: assumed contract',
        ],
    },
    'C17': {
        'units': ['unitA'],
        'assumptions': ['A-arena', 'A-std', 'A-extract', 'A-verus'],
        'rules': 'R1 R2 R6; panic mode: absent',
        'claimed': [
            'TombstoneArena (alloc, alloc_with_id, delete, get, get_mut, contains, len, next_id, index, index_mut, iter filter predicate, iter_mut constructor): whole-view contracts with frame over (arena id, items, tombstones); invariant tombstones are ids of this arena',
            'ArenaSet (new, insert, remove, next_id, index, index_mut): de-duplication invariant both ways (map entry <-> live item with that key); remove erases the key before on_delete mutates the item',
            'Type::eq and Type::hash read the same projection (params, results, is_for_function_entry): Eq/Hash coherence proved, not assumed',
            'ModuleTypes (get, delete, add): adding a present type returns the existing id and changes nothing; otherwise a fresh id; every other id keeps its item',
            'history statement (never reused, absent after delete): by induction over public operations, each of which preserves the invariant and states its frame',
        ],
        'unclaimed': [
            'IterMut::next is not under contract (Verus 0.2026.09.13 loses final(self) at a return inside a loop whose match has an if-guard): bounded stand-in only',
            'iteration order of iter()/par_iter() relies on A-iter (filter adapter over id_arena ascending order); only the predicate is verified',
        ],
        'standins': [
            {'fn': 'IterMut::next (src/tombstone_arena.rs) and the collections built on the arenas', 'argv': ['arena', '5'], 'argv_thorough': ['arena', '6'], 'bound_thorough': 'all histories of length 6',
             'bound': 'all 8^5 histories of add/delete/name on ModuleTypes and all 5^7 histories of add/delete on globals+exports, every observation (get, iter, iter_mut, find) checked after every step against a reference model',
             'why': 'Verus limitation (if-guard inside loop with return)'},
        ],
    },
}
