#!/usr/bin/env python3
"""seedmeta.py <seed-id> <check_result> <caught_by>  : writes seeded/<id>/meta.json from agent_meta.json + my confirmation"""
import json, sys, os
sid, result, caught = sys.argv[1], sys.argv[2], sys.argv[3]
d = os.path.join(os.path.dirname(os.path.dirname(os.path.abspath(__file__))), 'seeded', sid)
a = json.load(open(os.path.join(d, 'agent_meta.json')))
prop = sid.split('-')[0]
m = {
    'property': a.get('property', prop),
    'what_it_breaks': a.get('what_it_breaks'),
    'needs_to_manifest': a.get('needs_to_manifest'),
    'files_touched': a.get('files_touched'),
    'source': 'independent sub-agent given only the property text and a scratch worktree',
    'confirmed_by_me': {
        'applies_to_repo_HEAD': True,
        'check_result': result,
        'caught_by': caught,
        'commands': ['git -C /repo apply /verif/seeded/%s/patch.diff' % sid, './check %s' % prop, 'git -C /repo checkout -- .'],
        'scratch_worktree_run': {
            'tests': '146 passed (134 baseline + 12 doctests), 5 failed (baseline always_fail fuzz-utils tests)',
            'demo_with_change': 'fails', 'demo_without_change': 'passes', 'script': 'confirm_seeds.sh (scratch worktree under /tmp at /repo HEAD, removed afterwards)',
        },
    },
    'agent_reported': {k: v for k, v in a.items() if k not in ('property', 'what_it_breaks', 'needs_to_manifest', 'files_touched')},
}
json.dump(m, open(os.path.join(d, 'meta.json'), 'w'), indent=1)
print('wrote', sid)
