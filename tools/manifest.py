#!/usr/bin/env python3
"""Regenerates MANIFEST.json from tools/props.py (claimed properties) + the not-applicable table below."""
import json, os, sys
HERE = os.path.dirname(os.path.abspath(__file__))
VERIF = os.path.dirname(HERE)
sys.path.insert(0, HERE)
import props

ALL = ['C%02d' % i for i in range(1, 21)]

# text of the level claimed per property (what assurance, in my own words) + trusted base note
LEVEL = {
    'C01': ('composite proof: Verus discharges the per-operator translation (unit C), the per-entity attribute preservation (unit D), the index-map bijections (unit B) and the section order / frame of emit_wasm (unit I) on the real text; observational equivalence follows from these under the stated semantic assumption A-sem',
            'DESIGN.md §6 C01',
            'A-sem (renumbering / dead-code elision unobservable) is not checkable here (no interpreter); whole-body instruction order, local slot assignment, br_table, data/element emitters are bounded stand-ins (op, cf, entities, builder batteries)'),
    'C02': ('composite proof: Verus proves on the real emit_wasm that every section emitter runs after the index spaces it reads are complete, that index maps return what was pushed, and that GC keeps a reference-closed set and deletes exactly the rest; validity of the bytes is then checked by bounded stand-ins against an independent validator',
            'DESIGN.md §6 C02',
            'validity is the validator\'s judgement (A-deps); panic-freedom of individual emitters only in absent mode; stand-ins: gc, features, builder, replace, names, config batteries'),
    'C05': ('Verus proves in no_panic mode, arm by arm on the real payload loop of Module::parse, that nothing is interpreted before the validator accepted it and that validator errors are returned untouched; likewise for the operator loop of LocalFunction::parse; the feature set is proved exact (unit I)',
            'DESIGN.md §5 unit K, §6 C05',
            'totality of the interpreters behind the gate, completeness, stack depth and termination are a bounded stand-in (gate battery: ~10^5 mutated byte strings against an independent validator, deep nesting)'),
    'C10': ('Verus proves both directions of the DWARF address translation on the real functions: an instruction address is classified as, and mapped to, exactly its instruction; a function-relative address to exactly its function; anything without an output entry yields None (tombstoned)',
            'DESIGN.md §5 unit H, §6 C10',
            'binary searches by assumed std contract on sorted tables; sortedness of the tables and the gimli-driven rewriting (line programs, high_pc) are a bounded stand-in (dwarf battery with synthesized DWARF v4/v5); F11 (spanning sequences panic) is an open known finding'),
    'C11': ('Verus proves, on the real text, that every instruction / else / end is recorded at the encoder offset before its opcode is written (unit C) and that the module-level bookkeeping shifts body-relative pairs by the body start, drops default-location pairs, and reports each function range as [entry, entry + prefix + body)',
            'DESIGN.md §5 unit H, §6 C11',
            'tail of ModuleFunctions::emit (sorting, code_section_start) and wasm-encoder re-encoding the size prefix: bounded stand-in (offsets battery)'),
    'C13': ('Verus proves for every name map of parse_name_section (real loop bodies) that exactly the entity the input index denotes is renamed and nothing else changes; local names go through the map of the same function',
            'DESIGN.md §5 unit N, §6 C13',
            'emit_name_section is iterator chains over hash maps: bounded stand-in only (names battery)'),
    'C15': ('Verus proves on the real builder text (incl. the 96 macro-generated methods, checked against the unexpanded enum) that append / positional insert / nested block, loop, if-else construction build exactly the tree the calls describe',
            'DESIGN.md §5 unit J, §6 C15',
            'user closures by assumed API-step contract (A-ext); emission of the built tree (traversal order, branch depths, local slots) is a bounded stand-in (builder battery) on top of unit C'),
    'C18': ('Verus proves whole-function contracts on the real replace_imported_func / replace_exported_func: id kept resp. new function added, signature preserved, exactly one import deleted resp. exactly one export retargeted, everything else untouched, nothing changed on error',
            'DESIGN.md §5 unit J, §6 C18',
            'collections by assumed contract (units A/D), user body builder A-ext; observable rewiring in the emitted binary is a bounded stand-in (replace battery)'),
    'C20': ('Verus proves (unit C) that block signatures that fit the inline MVP form are always kept inline and that block types / table and memory operands are re-emitted in the class they were parsed in',
            'DESIGN.md §5 unit C, §6 C20',
            'data-count section and element-segment encodings are not under contract yet: bounded stand-in (features battery: every proposal the input validates without, the output validates without)'),
    'C03': ('one Verus obligation per operator arm of append_instruction (520+ arms, all immediates symbolic) proving that the instruction it appends is emitted by Emit::visit_instr as the mirror operator under the index renumbering; plus contracts on the control-stack functions, memarg loop, block open/close emission',
            'DESIGN.md §5 unit C, §6 C03',
            'assumes wasmparser/wasm-encoder enums correspond as generated by tools/mirrorgen.py (validated by the replay crate), id_arena/std stubs, iterator-adapter chains (BrTable, branch_target) and block_*_tys by assumed contract; instruction ORDER within a body is only proved per step'),
    'C04': ('Verus proves field-by-field contracts on the real add_local/add_import functions, on every parse loop body and emit loop body of memories, tables, globals, imports and exports, and on constant-expression conversion; a lemma ties parse and emit denotations to the property (same attributes / same entity)',
            'DESIGN.md §5 unit D, §6 C04',
            'data and element segments, start and the type section are not under contract yet: covered only by a bounded stand-in (entities battery, labelled bounded); iteration protocol of section readers assumed (A-iter); dependency types mirrored by hand (validated by the battery)'),
    'C06': ('Verus proves, on the real text of src/passes/used.rs and gc.rs, that every root kind is marked, that scanning an entity of any kind marks everything it refers to (closure step), that marking never un-marks, and that gc::run deletes exactly the unmarked entities; a generic worklist lemma turns these into closure of the kept set. Behavioural equality then rests on A-sem (deleting unreachable entities is unobservable)',
            'DESIGN.md §5 unit E, §6 C06',
            'the composition of the loops into Used::new (fold summaries, A-iter), the traversal reaching every instruction (unit F, C16) and custom-section roots (A-ext) are assumed; validity of the output is a bounded stand-in (gc battery with an independent reachability analysis)'),
    'C07': ('Verus proves gc::run (whole real function) sweeps every arena against its used set and imports by the kind they import: anything unmarked is gone; the marking functions mark nothing but what their contract names',
            'DESIGN.md §5 unit E, §6 C07',
            'least-fixpoint of the worklist as a whole and idempotence are a bounded stand-in only (independent reachability recomputed on the emitted binary, one and two runs), labelled bounded'),
    'C08': ('Verus proves on the whole real Module::emit_wasm that the module is left exactly as it was (every field, custom sections restored) so a second emit starts from the same state',
            'DESIGN.md §5 unit I, §6 C08',
            'determinism of the section emitters themselves (hash-map iteration in emit_locals, name section) is a bounded stand-in (emit-twice battery) until unit G'),
    'C12': ('Verus proves on the whole real Module::emit_wasm that after the standard sections exactly one section per live non-.debug custom section is written in arena order with the same name and bytes, and the module is unchanged',
            'DESIGN.md §5 unit I, §6 C12',
            'dyn CustomSection / Any downcasts / str::starts_with are outside Verus: loop body by assumed summary + bounded stand-in (customs battery)'),
    'C14': ('Verus proves each ModuleConfig setter changes exactly its switch, the feature set is exactly as stated, and in the whole real emit_wasm only the name/producers/DWARF sections depend on the switches',
            'DESIGN.md §5 unit I, §6 C14',
            'producers merge, on_parse callback and DWARF capture are string loops / boxed callbacks: bounded stand-in (config battery)'),
    'C16': ('Verus proves, for every Instr variant and any visitor, that the macro-generated Visit/VisitMut impls and the Instr dispatchers report exactly the entity operands (derived from field types of the unexpanded enum) once; default hooks are callbacks only; acceptance without decreases shows no recursion in that call graph',
            'DESIGN.md §5 unit F, §6 C16',
            'the observation log is defined by assumed contracts on the nine id hooks (A-ext); the two DFS drivers are outside Verus (while-let, labelled continue, iterator adapters) and are covered by bounded stand-ins only (labelled bounded in evidence)'),
    'C17': ('Verus discharges, for all inputs and histories, the contracts of the real arena functions (extracted verbatim each run) that the property decomposes into',
            'DESIGN.md §5 unit A, §6 C17',
            'assumes id_arena::Arena and the Id hash set behave as the stubs in specs/arena_stubs.vrs say (A-arena, A-std); extraction rules R1,R2,R6'),
    'C19': ('Verus proves the macro-generated push/get methods of both index maps (through the macro_rules text itself) and that every parse/emit loop body pushes exactly the entity it creates/emits, once, into its own index space, with the frame on the other spaces',
            'DESIGN.md §5 unit B, §6 C19',
            'get_*_index bodies assumed (diverging closure); locals/functions/types/elements/data push sites and the hand-off to custom sections not covered yet'),
}

NOT_APPLICABLE = {
    'C09': 'quantifies over thread schedules of the rayon-parallel function-body parse/emit: Verus contracts here are sequential and Kani has no thread support; no contract within reach can express or decide it (DESIGN.md §7)',
}
PENDING = 'unit not built yet (work in progress); see DESIGN.md §8'


def main():
    checks, claimed = [], []
    for pid in ALL:
        if pid in props.PROPS and pid in LEVEL:
            text, ref, note = LEVEL[pid]
            claimed.append(pid)
            checks.append({
                'property_id': pid,
                'quick_cmd': './check %s --tier quick' % pid,
                'thorough_cmd': './check %s --tier thorough' % pid,
                'evidence_file': 'evidence/%s.json' % pid,
                'replay_cmd_template': './check --replay {path}',
                'engine': 'verus-extract',
                'level_claimed': {'category': 'proof', 'text': text, 'design_ref': ref},
                'level_note': note,
                'technique': 'contract-based deductive verification (Verus) of real function text extracted from /repo on every run',
            })
    na = [{'property_id': p, 'reason': NOT_APPLICABLE.get(p, PENDING)} for p in ALL if p not in claimed]
    m = {
        'version': 1,
        'setup_cmd': 'cd replay && CARGO_NET_OFFLINE=true cargo build --offline',
        'hooks': {'guard': 'none (no source hooks: contracts are attached to text extracted from /repo on every run; Kani harnesses are injected into scratch copies only)',
                  'enable': 'n/a', 'baseline_off_cmd': 'cd /repo && cargo test --workspace --no-fail-fast --offline', 'source_commits': [], 'add_only': True},
        'engines': [{'name': 'verus-extract', 'path': 'tools/check.py', 'serves_properties': claimed,
                     'kind_free_text': 'contract-based deductive verification: Verus (Z3) on function text extracted verbatim from /repo on every run'}],
        'checks': checks,
        'not_applicable': na,
    }
    json.dump(m, open(os.path.join(VERIF, 'MANIFEST.json'), 'w'), indent=1)
    print('claimed:', claimed)
    print('not claimed:', [x['property_id'] for x in na])


if __name__ == '__main__':
    main()
