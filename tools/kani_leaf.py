"""Kani leaves: loop-free (or fully unwound) harnesses over full-domain symbolic inputs on statements copied from /repo on every
run.  A passing harness with unwinding assertions on is a complete proof (no bound), not a bounded stand-in."""
import os, re, subprocess, time, hashlib, json
from rustlex import Source, LexError

LEAVES = {
    # LocalFunction::parse: number of bytes of the LEB128 size prefix of a function body, computed from its size
    'L.parse.size_prefix_len': {
        'src': 'src/module/functions/local_function/mod.rs',
        'fn': 'parse',
        'stmt_prefix': 'let function_body_size_bit',
        'what': 'LocalFunction::parse: `let function_body_size_bit = ..;` (length of the size prefix, used for original_range.start)',
        'harness': '''
fn leaf(function_body_size: usize) -> u32 {
    %(stmt)s
    function_body_size_bit
}
// specification: the number of bytes of the unsigned LEB128 encoding
fn leb_len(mut n: usize) -> u32 { let mut k = 1; while n >= 128 { n >>= 7; k += 1; } k }
#[cfg(kani)]
#[kani::proof]
#[kani::unwind(11)]
fn check() {
    let n: usize = kani::any();
    kani::assume(n >= 1);          // a function body is never empty (locals count + `end`)
    assert!(leaf(n) == leb_len(n));
}
pub fn witness() -> Option<usize> {
    // boundary values of every LEB length: replays the extracted statement on concrete inputs
    let mut c: Vec<usize> = vec![1, 2, 3];
    let mut p: usize = 128;
    loop { c.push(p - 1); c.push(p); c.push(p + 1); match p.checked_mul(128) { Some(q) => p = q, None => break } }
    c.push(usize::MAX);
    c.into_iter().find(|n| std::panic::catch_unwind(|| leaf(*n)).map(|v| v != leb_len(*n)).unwrap_or(true))
}
''',
    },
}


def extract(repo, leaf):
    p = os.path.join(repo, leaf['src'])
    src = Source(leaf['src'], open(p).read())
    want = re.sub(r'\s+', '', leaf['stmt_prefix'])
    for it in src.find_fn_items():
        if it.name != leaf['fn'] or it.body_open is None:
            continue
        k = it.body_open + 1
        while k < it.end:
            if src.is_id(k, 'let'):
                e = k
                depth = 0
                while e < it.end:
                    t = src.toks[e]
                    if t.kind == 'punct' and t.text in '([{':
                        e = src.match[e]
                    elif t.kind == 'punct' and t.text == ';':
                        break
                    e += 1
                txt = src.span_text(k, e)
                if re.sub(r'\s+', '', txt).startswith(want):
                    return txt, src.toks[k].line
            k += 1
    return None, None


def run(repo, scratch, oblig, log):
    """-> dict(status ok|failed|lost-anchor|error, cmd, wall_s, witness, output)"""
    leaf = LEAVES[oblig]
    t0 = time.time()
    try:
        stmt, line = extract(repo, leaf)
    except (OSError, LexError) as e:
        return {'status': 'lost-anchor', 'detail': repr(e)}
    if stmt is None:
        return {'status': 'lost-anchor', 'detail': 'statement `%s ..` not found in %s::%s' % (leaf['stmt_prefix'], leaf['src'], leaf['fn'])}
    d = os.path.join(scratch, 'kani-' + re.sub(r'\W', '_', oblig))
    os.makedirs(os.path.join(d, 'src'), exist_ok=True)
    open(os.path.join(d, 'Cargo.toml'), 'w').write('[package]\nname = "kani-leaf"\nversion = "0.1.0"\nedition = "2021"\n[workspace]\n[dependencies]\n')
    body = leaf['harness'] % {'stmt': stmt}
    open(os.path.join(d, 'src', 'lib.rs'), 'w').write('// generated on every run: statement copied from %s:%s\n' % (leaf['src'], line) + body)
    open(os.path.join(d, 'src', 'main.rs'), 'w').write('fn main() { match kani_leaf::witness() { Some(n) => { println!("WITNESS {}", n); std::process::exit(1) } None => println!("no witness among boundary values") } }\n')
    env = dict(os.environ, CARGO_NET_OFFLINE='true')
    cmd = ['cargo', 'kani', '--harness', 'check']
    p = subprocess.run(cmd, cwd=d, env=env, capture_output=True, text=True, timeout=1200)
    out = p.stdout + p.stderr
    res = {'cmd': 'cargo kani --harness check  (in a generated crate; statement copied from %s:%s)' % (leaf['src'], line),
           'wall_s': time.time() - t0, 'output': out[-3000:], 'stmt': stmt, 'line': line, 'what': leaf['what'], 'src': leaf['src'],
           'sha': hashlib.sha256(stmt.encode()).hexdigest()[:16]}
    if 'VERIFICATION:- SUCCESSFUL' in out:
        res['status'] = 'ok'
        return res
    if 'VERIFICATION:- FAILED' in out:
        res['status'] = 'failed'
        # replay: run the extracted statement on concrete boundary values
        q = subprocess.run(['cargo', 'run', '--offline', '-q'], cwd=d, env=env, capture_output=True, text=True, timeout=600)
        m = re.search(r'WITNESS (\d+)', q.stdout)
        if m:
            res['witness'] = {'battery': ['kani-leaf', oblig], 'failing_input': {'function_body_size': int(m.group(1)), 'what': 'the extracted statement disagrees with the LEB128 length for this size'},
                              'replay_argv': None}
        return res
    res['status'] = 'error'
    return res
