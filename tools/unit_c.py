"""Unit C plugin: one obligation per arm of `append_instruction` (rule R3).

For the arm `Operator::X { f1, f2: b } => BODY` it emits

    pub fn parse_arm_X(ctx: &mut ValidationContext, f1: T1, b: T2, loc: InstrLocId, Ghost(em): Ghost<EmitEnv>)
        <contract from the `armcontract` blocks of the spec, default or per operator>
    {
        <`use` statements of append_instruction, verbatim>
        <the named closures of append_instruction that BODY mentions, verbatim, with their contracts inserted>
        BODY (verbatim)
    }

Parameter names are the pattern's bindings, parameter types are the operator's field types (from the same
generated mirror of wasmparser::Operator that the stub enum is built from).
"""
import re
from rustlex import split_arms, find_matches, find_closure, norm
import mirrorgen

MOD = 'src/module/functions/local_function/mod.rs'
CLOSURES = ['const_', 'unop', 'binop', 'ternop', 'mem_arg', 'load', 'store', 'atomicrmw', 'cmpxchg', 'load_simd']
NEEDS_MEM_ARG = {'load', 'store', 'atomicrmw', 'cmpxchg', 'load_simd'}


def range_pre(field, ty):
    """what "the validator accepted this operator" means for one immediate (A-deps / A-val-idx)"""
    t = {'function_index': 'funcs', 'type_index': 'types', 'table_index': 'tables', 'table': 'tables',
         'dst_table': 'tables', 'src_table': 'tables', 'mem': 'memories', 'dst_mem': 'memories',
         'src_mem': 'memories', 'global_index': 'globals', 'data_index': 'data', 'elem_index': 'elements'}
    if ty == 'u32' and field in t:
        return '%%s < old(ctx).indices.%s().len()' % t[field]
    if field == 'local_index':
        return 'old(ctx).indices.locals().contains_key(old(ctx).func_id) && %s < old(ctx).indices.locals()[old(ctx).func_id].len()'
    if field == 'relative_depth':
        return '%s < old(ctx).ctl().len()'
    if ty == 'MemArg':
        return 'accepted_memarg(%s, old(ctx))'
    if ty == 'ValType':
        return 'accepted_valtype(%s)'
    if ty == 'HeapType':
        return 'accepted_heaptype(%s)'
    if ty == 'BlockType':
        return 'accepted_blocktype(%s, old(ctx))'
    if ty == 'BrTable':
        return 'accepted_brtable(%s, old(ctx))'
    return None


def parse_pattern(pat):
    """`Operator::X { a, b: c, .. }` -> ('X', {'a': 'a', 'b': 'c'}) ; None for or-patterns"""
    p = pat.strip()
    if len(mirrorgen.split_top(p, '|')) > 1:
        return None
    m = re.match(r'^Operator::(\w+)\s*(\{(.*)\})?$', p, re.S)
    if not m:
        return None
    name, _, inner = m.groups()
    binds = {}
    if inner:
        for part in mirrorgen.split_top(inner):
            part = part.strip()
            if part == '..':
                continue
            if ':' in part:
                f, b = part.split(':', 1)
                binds[f.strip()] = b.strip()
            elif part.startswith('ref '):
                binds[part[4:].strip()] = part
            else:
                binds[part] = part
    return name, binds


def run(g, kw, block, specfile, specline):
    from gen import LostAnchor
    what = kw.get('what', 'parse_arms')
    src, it = g.find_fn(MOD, 'append_instruction')
    ms = [m for m in find_matches(src, it.body_open, it.end) if norm(m[1]) == 'inst']
    if len(ms) != 1:
        raise LostAnchor('append_instruction: expected exactly one `match inst`')
    mtok, _, mopen = ms[0]
    arms = split_arms(src, mopen)
    wpv = mirrorgen.locked_version(g.repo, 'wasmparser')
    ops = {o['name']: o for o in mirrorgen.parse_operators(mirrorgen.registry_dir('wasmparser', wpv))}
    # `use` statements at the top level of the function body
    uses = []
    k = it.body_open + 1
    while k < mtok:
        if src.is_id(k, 'use'):
            e = k
            while not src.is_p(e, ';'):
                e += 1
            uses.append(src.span_text(k, e))
            k = e
        elif src.toks[k].kind == 'punct' and src.toks[k].text in '([{':
            k = src.match[k]
        k += 1
    # closures with their stored contracts
    cl = {}
    for name in CLOSURES:
        c = find_closure(src, it.body_open, mtok, name)
        if c is None:
            raise LostAnchor('closure %s not found in append_instruction' % name)
        cl[name] = c
    contracts = g.store.get('armcontract', {})
    ccontracts = g.store.get('closurecontract', {})
    only = set(kw['only'].split(',')) if 'only' in kw else None
    skip = set(kw.get('skip', '').split(',')) if kw.get('skip') else set()
    expanded = []
    for arm in arms:
        alts = mirrorgen.split_top(arm.pat.strip(), '|')
        if 1 < len(alts) <= 4:
            for a in alts:
                expanded.append((arm, a, True))
        else:
            expanded.append((arm, arm.pat, False))
    chunks = int(kw.get('chunks', 0))
    per = (len(expanded) + chunks - 1) // chunks if chunks else 0
    opened = [False]
    count = [0]

    def open_mod():
        if chunks and not opened[0]:
            g.emit('pub mod parse_arms_%d {\nuse vstd::prelude::*;\nuse super::*;\nverus! {\nbroadcast use {axiom_id_ext, axiom_id_mk};' % (count[0] // per), 'spec', specfile, specline, False)
            opened[0] = True

    def close_mod(force=False):
        if chunks and opened[0] and (force or count[0] % per == 0):
            g.emit('} // verus!\n}', 'spec', specfile, specline, False)
            opened[0] = False

    for arm, pat_text, is_alt in expanded:
        open_mod()
        count[0] += 1
        try:
            one_arm(g, kw, specfile, specline, src, it, arm, pat_text, is_alt, ops, wpv, uses, cl, contracts, ccontracts, only, skip)
        finally:
            close_mod()
    close_mod(True)


def one_arm(g, kw, specfile, specline, src, it, arm, pat_text, is_alt, ops, wpv, uses, cl, contracts, ccontracts, only, skip):
    from gen import LostAnchor
    for _ in (0,):
        pp = parse_pattern(pat_text)
        if pp is None:
            # the group of unsupported operators: one obligation, body must be unreachable for accepted operators
            if 'group' in contracts and (only is None or 'group' in only):
                oblig = 'C.parse.arm.UNSUPPORTED_GROUP'
                g.begin_block(oblig, 'arm', MOD, src, arm.pat_tok, arm.body_hi, 'append_instruction arm (unsupported operators group)')
                c_lo = len(g.out)
                g.emit(contracts['group'], 'spec', specfile, specline)
                c_hi = len(g.out)
                g.emit('{', 'spec', specfile, specline, False)
                g.emit_segs(g.body_with_insertions(src, arm.body_lo, arm.body_hi, {}, [], MOD), MOD)
                g.emit('}', 'spec', specfile, specline, False)
                g.end_block(c_lo, c_hi)
            continue
        name, binds = pp
        if only is not None and name not in only:
            continue
        if name in skip:
            continue
        if name not in ops:
            raise LostAnchor('operator %s is not in wasmparser %s' % (name, wpv))
        fields = ops[name]['fields']
        params, margs, ranges = [], [], []
        for f, t in fields:
            b = binds.get(f, f)
            if b == '_':
                b = '_' + f
            ty = mirrorgen.WP_TYPES.get(t, 'Unmodelled')
            qty = mirrorgen.wp_qual(ty)
            if b.startswith('ref '):
                b = b[4:].strip()
                params.append('%s: &%s' % (b, qty))
                val = '*' + b
            else:
                params.append('%s: %s' % (b, qty))
                val = b
            margs.append(val)
            r = range_pre(f, ty)
            if r:
                ranges.append(r % val)
        contract = contracts.get(name, contracts.get('default'))
        if contract is None:
            raise LostAnchor('no arm contract for ' + name)
        contract = (contract.replace('$NAME', name)
                    .replace('$MARGS', ''.join(a + ', ' for a in margs))
                    .replace('$RANGE', ''.join('        %s,\n' % r for r in ranges).rstrip('\n') or '        true,'))
        body_text = src.span_text(arm.body_lo, arm.body_hi)
        used = [c for c in CLOSURES if re.search(r'\b%s\s*\(' % re.escape(c), body_text)]
        if any(c in NEEDS_MEM_ARG for c in used) and 'mem_arg' not in used:
            used = ['mem_arg'] + used
        used = [c for c in CLOSURES if c in used]
        oblig = 'C.parse.arm.' + name
        g.begin_block(oblig, 'arm', MOD, src, arm.pat_tok, arm.body_hi, 'append_instruction arm Operator::' + name)
        c_lo = len(g.out)
        hdr = 'pub fn parse_arm_%s(ctx: &mut ValidationContext, %sloc: InstrLocId, Ghost(em): Ghost<EmitEnv>%s)' % (
            name, ''.join(p + ', ' for p in params), ', inst: Operator' if is_alt else '')
        if is_alt:
            # the arm is shared by several operators and may inspect `inst`: it is verified once per alternative
            fs = ', '.join('%s: %s' % (f, v) for (f, _), v in zip(fields, margs))
            contract = contract.replace('requires', 'requires inst == (Operator::%s%s),\n       ' % (name, ' { %s }' % fs if fs else ''), 1)
        g.emit(hdr + '\n' + contract, 'spec', specfile, specline, False)
        c_hi = len(g.out)
        g.emit('{', 'spec', specfile, specline, False)
        proofs = g.store.get('armcontract', {})
        for (f, t), b in zip(fields, margs):
            ty = mirrorgen.WP_TYPES.get(t, 'Unmodelled')
            if ('proof:' + ty) in proofs:
                g.emit(proofs['proof:' + ty].replace('$B', '(%s)' % b), 'spec', specfile, specline, False)
        for u in uses:
            g.emit(g.clean(u), 'code', MOD, it.line, False)
        for c in used:
            let_tok, cparams, b_lo, b_hi, end_tok = cl[c]
            # text up to the closing `|` of the parameter list, then the contract, then the body
            head = src.text[src.toks[let_tok].start:src.toks[b_lo].start].rstrip()
            # R6: an explicit closure return type `-> T` gets a name, `-> (r: T)`
            am = re.search(r'\|\s*->\s*(.*)$', head, re.S)
            if am:
                head = head[:am.start()] + '| -> (r: ' + am.group(1).strip() + ')'
            g.emit(head, 'code', MOD, src.toks[let_tok].line)
            if c in ccontracts:
                g.emit(ccontracts[c], 'spec', specfile, specline, False)
            g.emit_segs(g.body_with_insertions(src, b_lo, b_hi, {}, [], MOD), MOD)
            g.emit(';', 'spec', specfile, specline, False)
        hints = []
        for key, txt in contracts.items():
            if key.startswith('hint:%s:' % name) or key == 'hint:%s' % name:
                first, _, rest = txt.partition('\n')
                first = first.strip()
                if first.startswith('@loopstub'):
                    # the arm's n-th loop (or the loop whose header holds the text: `hdr:TEXT`) is replaced by its summary (R4c)
                    sel = first.split(None, 1)[1].strip()
                    hints.append((int(sel) if sel.isdigit() else sel, '@loopstub', rest.strip()))
                elif first.startswith('@replace'):
                    o, nw = rest.strip().split(' ==> ', 1)   # R10
                    hints.append((0, '@replace', (o.strip(), nw.strip())))
                else:
                    hints.append((0, first, rest))
        g.emit_segs(g.body_with_insertions(src, arm.body_lo, arm.body_hi, {}, hints, MOD), MOD)
        g.emit('}', 'spec', specfile, specline, False)
        g.end_block(c_lo, c_hi)
