#!/usr/bin/env python3
"""seedtable.py : regenerates the table of section 10.6 of DESIGN.md from seeded/*/meta.json (dev tool)"""
import json, os, re
root = os.path.dirname(os.path.dirname(os.path.abspath(__file__)))
rows = []
def key(s):
    p, n = s.split('-'); return (p, int(n))
for sid in sorted(os.listdir(os.path.join(root, 'seeded')), key=key):
    m = json.load(open(os.path.join(root, 'seeded', sid, 'meta.json')))
    what = (m.get('what_it_breaks') or '').replace('|', '/').replace('\n', ' ')[:170]
    c = m['confirmed_by_me']
    rows.append('| %s | %s | %s — %s |' % (sid, what, c['caught_by'].replace('|', '/'), c['check_result']))
p = os.path.join(root, 'DESIGN.md')
s = open(p).read()
head = '| seed | change | caught by |\n|---|---|---|\n'
a = s.index(head) + len(head)
b = a
lines = s[a:].split('\n')
n = 0
while n < len(lines) and lines[n].startswith('| C'):
    n += 1
b = a + sum(len(l) + 1 for l in lines[:n])
s = s[:a] + '\n'.join(rows) + '\n' + s[b:]
open(p, 'w').write(s)
print(len(rows), 'rows')
