#!/bin/bash
# usage: mut.sh PROP FILE 'python-expr old' 'new'   (applies textual replace in scratch copy, runs check, restores)
W=/var/tmp/walrus-seedrun3
rsync -a --delete --exclude target /repo/ $W/repo/
python3 - "$W/repo/$2" "$3" "$4" <<'PY'
import sys
p,old,new=sys.argv[1:4]
s=open(p).read()
assert old in s, 'pattern not found'
s=s.replace(old,new,1)
open(p,'w').write(s)
PY
git -C $W/repo diff --stat | tail -1
VERIF_REPO=$W/repo VERIF_OUT=$W/out VERIF_SCRATCH=$W/scratch /verif/check $1 2>&1 | grep -E "^VIOLATION|^OK|^UNDECIDED" | cut -c1-220
git -C $W/repo checkout -q -- .
