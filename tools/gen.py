"""Template processor: builds one self-contained Verus file per unit from
  * verbatim byte ranges of /repo's current working tree (or of rustc's macro
    expansion of it), located by item path / constructor pattern / loop ordinal /
    closure name -- never by line number;
  * the hand written contracts, stubs and lemmas in specs/<unit>.vrs.

Directives (lines starting with `//@`):

  //@include <file under specs/>
  //@item <src> <kw> <name> [nopub]          struct/enum/type/const/trait verbatim (R2 applied)
  //@impl <src> <impl header, whitespace-insensitive>     emits the verbatim header and `{`
  //@endimpl
  //@fn <src> <selector> [as=<oblig>] [ret=<name>] [sig=keep|named]
  //@ <contract line>            (requires/ensures/decreases text, inserted between signature and body)
  //@loop <n>                    (then `//@ ` lines: invariant/decreases text inserted at the n-th loop head)
  //@proof <n> <needle>          (then `//@ ` lines: inserted before the statement whose text starts
                                   with the n-th occurrence of needle; proof text only)
  //@end
  //@arm <src> <selector> match=<k> pat=<pattern> as=<oblig>   body of one match arm as a fn
  //@ fn header line(s) written in the spec (params = bindings of the pattern; stated in DESIGN R3)
  //@end
  //@closure <src> <selector> name=<closure> as=<oblig>        `let name = |..| body` lifted to a fn (R4 L)
  //@loopbody <src> <selector> loop=<n> as=<oblig>             body of the n-th loop as a fn (R4 B)
  (vacuity twins -- same text, same requires, `ensures false` -- are generated automatically, see Gen.twins)

<selector> is `[ctx-substring::]fnname[#k]` where ctx-substring is matched
whitespace-insensitively against the enclosing impl/trait/mod headers.
"""
import os, re, sys, json, hashlib
from rustlex import Source, norm, find_matches, split_arms, find_loops, find_closure, find_inline_closures, LexError

SPECS = os.path.join(os.path.dirname(os.path.abspath(__file__)), '..', 'specs')


class LostAnchor(Exception):
    pass


class Gen:
    def __init__(self, repo, expanded_path=None, twins='none'):
        self.repo = repo
        self.twins = twins   # none | req | all
        self.expanded_path = expanded_path
        self.sources = {}
        self.out = []          # lines
        self.map = []          # per line: dict(kind, file, line, block)
        self.blocks = {}       # oblig id -> dict(kind, src, line_lo, line_hi, fn, gen_lo, gen_hi)
        self.cur_block = None
        self.drops = set()
        self.store = {}        # named contract texts for plugins

    # ---------------------------------------------------------------- sources
    def source(self, rel):
        if rel not in self.sources:
            if rel == '@expanded':
                if not self.expanded_path or not os.path.exists(self.expanded_path):
                    raise LostAnchor('macro expansion not available')
                p = self.expanded_path
            else:
                p = os.path.join(self.repo, rel)
            if not os.path.exists(p):
                raise LostAnchor('source file missing: ' + rel)
            try:
                self.sources[rel] = Source(rel, open(p).read())
            except LexError as e:
                raise LostAnchor('cannot lex %s: %s' % (rel, e))
            self.sources[rel].fns = self.sources[rel].find_fn_items()
        return self.sources[rel]

    def find_fn(self, rel, selector):
        src = self.source(rel)
        ordinal = None
        m = re.match(r'^(.*)#(\d+)$', selector)
        if m:
            selector, ordinal = m.group(1), int(m.group(2))
        ctxsel = None
        if '::' in selector:
            ctxsel, name = selector.rsplit('::', 1)
            ctxsel = norm(ctxsel)
        else:
            name = selector
        cands = []
        for it in src.fns:
            if it.name != name:
                continue
            if it.has_cfg('feature') or any(c[2].has_cfg('test') or c[2].has_cfg('feature') for c in it.ctx):
                continue
            if any('cfg(test)' in norm(a) for c in it.ctx for a in c[2].attrs):
                continue
            if ctxsel is not None and not any((ctxsel[1:] == norm(self.clean(h))) if ctxsel.startswith('=') else (ctxsel in norm(h)) for (_, h, _) in it.ctx):
                continue
            cands.append(it)
        if not cands and ctxsel is None:
            # a fn item nested in another function's body
            from rustlex import Item
            for k in range(len(src.toks) - 1):
                if src.is_id(k, 'fn') and src.is_id(k + 1, name):
                    b = k
                    while not src.is_p(b, '{') and not src.is_p(b, ';'):
                        b += 1
                    if src.is_p(b, '{'):
                        cands.append(Item(src, 'fn', name, k, k, src.match[b], b, [], []))
        if not cands:
            raise LostAnchor('fn not found: %s %s' % (rel, selector))
        if ordinal is None:
            if len(cands) > 1:
                raise LostAnchor('ambiguous fn: %s %s (%d candidates)' % (rel, selector, len(cands)))
            return src, cands[0]
        if ordinal >= len(cands):
            raise LostAnchor('fn ordinal out of range: %s %s' % (rel, selector))
        return src, cands[ordinal]

    # ---------------------------------------------------------------- emit helpers
    def emit(self, text, kind, file, line, advance=True):
        for k, ln in enumerate(text.split('\n')):
            self.out.append(ln)
            self.map.append({'kind': kind, 'file': file, 'line': line + (k if advance else 0),
                             'block': self.cur_block})

    def clean(self, text):
        """R2: visibility dropped; doc comments / derives are not part of token ranges we copy
        (attributes are excluded by construction).  Nothing else is touched."""
        text = re.sub(r'\bpub\s*\(\s*(crate|super|self|in\s+[^)]*)\)\s*', '', text)
        text = re.sub(r'\bpub\s+', '', text)
        return text

    # ---------------------------------------------------------------- directives
    def run(self, spec_rel):
        path = os.path.join(SPECS, spec_rel)
        lines = open(path).read().split('\n')
        i = 0
        while i < len(lines):
            ln = lines[i]
            s = ln.strip()
            if not s.startswith('//@'):
                self.emit(ln, 'spec', 'specs/' + spec_rel, i + 1)
                i += 1
                continue
            parts = s[3:].split()
            if not parts:
                i += 1
                continue
            d = parts[0]
            if d == 'include':
                self.run(parts[1])
                i += 1
            elif d == 'item':
                self.do_item(parts[1], parts[2], parts[3], parts[4:])
                i += 1
            elif d == 'impl':
                self.do_impl(parts[1], ' '.join(parts[2:]))
                i += 1
            elif d == 'mirror':
                import mirrorgen
                if not hasattr(self, '_mirror'):
                    try:
                        self._mirror = mirrorgen.generate_parts(self.repo)
                    except Exception as e:
                        raise LostAnchor('mirror generation failed: %r' % (e,))
                self.emit(self._mirror[parts[1]], 'spec', 'tools/mirrorgen.py:' + parts[1], 1, False)
                i += 1
            elif d == 'endimpl':
                self.emit('}', 'spec', 'specs/' + spec_rel, i + 1)
                i += 1
            elif d in ('armcontract', 'closurecontract'):
                j = i + 1
                txt = []
                while j < len(lines) and lines[j].strip() != '//@end':
                    l = lines[j]
                    txt.append(l.strip()[3:] if l.strip().startswith('//@') else l)
                    j += 1
                self.store.setdefault(d, {})[parts[1]] = '\n'.join(txt)
                i = j + 1
            elif d == 'plugin':
                import importlib
                mod = importlib.import_module(parts[1])
                pos, kw = self.kv(parts[2:])
                mod.run(self, kw, None, 'specs/' + spec_rel, i + 1)
                i += 1
            elif d in ('fn', 'arm', 'closure', 'loopbody', 'fnprefix', 'fnsuffix', 'trait', 'implall', 'macro'):
                j = i + 1
                block = []
                while j < len(lines) and lines[j].strip() != '//@end':
                    block.append((j + 1, lines[j]))
                    j += 1
                if j >= len(lines):
                    raise LostAnchor('%s:%d: missing //@end' % (spec_rel, i + 1))
                getattr(self, 'do_' + d)(parts[1:], block, 'specs/' + spec_rel, i + 1)
                i = j + 1
            else:
                raise LostAnchor('%s:%d: unknown directive %s' % (spec_rel, i + 1, d))

    @staticmethod
    def kv(parts):
        pos, kw = [], {}
        for p in parts:
            m = re.match(r'^(\w+)=(.*)$', p)
            if m:
                kw[m.group(1)] = m.group(2)
            else:
                pos.append(p)
        return pos, kw

    def do_item(self, rel, kw, name, opts):
        src = self.source(rel)
        if kw == 'macrocall':
            n = 0
            k = 0
            while k < len(src.toks) - 2:
                if src.is_id(k, name) and src.is_p(k + 1, '!') and src.toks[k + 2].kind == 'punct' and src.toks[k + 2].text in '({' \
                        and not (k > 0 and src.is_id(k - 1, 'macro_rules')):
                    # only invocations at item level (depth 0)
                    e = src.match[k + 2]
                    if src.is_p(e + 1, ';'):
                        e += 1
                    depth0 = not any(a < k < b for a, b in src.match.items() if a < b and src.toks[a].text == '{')
                    if depth0:
                        self.emit(src.span_text(k, e), 'code', rel, src.toks[k].line)
                        n += 1
                    k = e
                k += 1
            if n == 0:
                raise LostAnchor('no invocation of %s! in %s' % (name, rel))
            return

        def walk(lo, hi):
            for it in src.items(lo, hi):
                if it.kw == kw and it.name == name and not it.has_cfg('feature'):
                    return it
                if it.kw == 'mod' and it.body_open is not None and not it.has_cfg('test'):
                    r = walk(it.body_open + 1, src.match[it.body_open])
                    if r:
                        return r
            return None
        it = walk(0, len(src.toks))
        if it is None:
            raise LostAnchor('item not found: %s %s %s' % (rel, kw, name))
        text = self.clean(it.text)
        # strip attributes inside the item body (field/variant attrs such as #[walrus(..)] or #[doc..])
        text = strip_inner_attrs(text)
        if kw == 'struct':
            text = pubify_struct(text)
        if kw in ('struct', 'enum', 'trait', 'type', 'const'):
            text = 'pub ' + text
        # R2: #[derive(..)] is reduced to the traits Verus can derive; everything else is dropped
        keep = []
        for a in it.attrs:
            m = re.match(r'#\[derive\((.*)\)\]$', a, re.S)
            if m:
                keep += [d.strip() for d in m.group(1).split(',') if d.strip() in ('Clone', 'Copy', 'PartialEq', 'Eq', 'Hash') or (d.strip() == 'Default' and 'keepdefault' in opts)]
        if 'noderive' in opts:
            keep = []
        if keep and kw in ('struct', 'enum') and not any(a.startswith('attr=') for a in opts):
            self.emit('#[derive(%s)]' % ', '.join(keep), 'spec', rel, it.line, False)
        for a in opts:
            if a.startswith('attr='):
                self.emit(a[5:], 'spec', rel, it.line, False)
        self.emit(text, 'code', rel, it.line)

    def do_impl(self, rel, header):
        src = self.source(rel)
        want = norm(header)

        def walk(lo, hi):
            for it in src.items(lo, hi):
                if it.kw in ('impl', 'trait') and it.body_open is not None:
                    if norm(self.clean(src.span_text(it.sig_start, it.body_open - 1))) == want:
                        return it
                if it.kw == 'mod' and it.body_open is not None and not it.has_cfg('test'):
                    r = walk(it.body_open + 1, src.match[it.body_open])
                    if r:
                        return r
            return None
        it = walk(0, len(src.toks))
        if it is None:
            raise LostAnchor('impl not found: %s %s' % (rel, header))
        self.emit(self.clean(src.span_text(it.sig_start, it.body_open - 1)) + ' {', 'code', rel, it.line)

    # .................................................................. fn
    def named_sig(self, src, it, retname):
        """Signature text with `-> T` turned into `-> (ret: T)` (R6).  Tokens of T are copied."""
        lo, hi = it.sig_start, it.body_open - 1
        # find `fn name ( ... )`
        k = lo
        while not src.is_id(k, 'fn'):
            k += 1
        k += 2
        if src.is_p(k, '<'):
            depth = 0
            while True:
                if src.is_p(k, '<'):
                    depth += 1
                elif src.is_p(k, '>') and not src.is_p(k - 1, '-'):
                    depth -= 1
                    if depth == 0:
                        break
                k += 1
            k += 1
        if not src.is_p(k, '('):
            raise LostAnchor('cannot find parameter list of ' + it.name)
        close = src.match[k]
        head = src.span_text(lo, close)
        if close == hi:
            return head, ''
        a = close + 1
        if src.is_p(a, '-') and src.is_p(a + 1, '>'):
            # return type runs to `where` at depth 0 or to hi
            b = a + 2
            e = b
            while e <= hi:
                if src.toks[e].kind == 'punct' and src.toks[e].text in '([{':
                    e = src.match[e] + 1
                    continue
                if src.is_id(e, 'where'):
                    break
                e += 1
            rty = src.span_text(b, e - 1)
            rest = src.span_text(e, hi) if e <= hi else ''
            return head + ' -> (%s: %s)' % (retname, rty), rest
        return head, src.span_text(a, hi)

    def body_with_insertions(self, src, lo_tok, hi_tok, loops_ins, proof_ins, rel):
        """Text of tokens [lo_tok, hi_tok] with spec text inserted at loop heads / before statements.
        Returns list of (text, kind, line)."""
        inserts = []  # (byte offset, text)
        if loops_ins:
            loops = find_loops(src, lo_tok, hi_tok)
            for n, txt in loops_ins.items():
                n = resolve_loop(loops, n)
                if n >= len(loops):
                    raise LostAnchor('loop %d not found' % n)
                inserts.append((src.toks[loops[n][3]].start, '\n' + txt + '\n'))
        replacements = []
        for (n, needle, txt) in proof_ins:
            if needle == '@closure':
                # R6: the n-th inline closure gets typed parameters, a named return and a contract; its body is
                # wrapped in braces.  `|p| EXPR`  =>  `|p: T| -> (r: U) <contract> { EXPR }`
                params, ret, contract = txt
                cs = find_inline_closures(src, lo_tok, hi_tok)
                if n >= len(cs):
                    raise LostAnchor('inline closure %d not found' % n)
                first, ptext, b_lo, b_hi = cs[n]
                bar1 = first if src.is_p(first, '|') else first + 1
                bar2 = b_lo - 1
                replacements.append((src.toks[bar1].end, src.toks[bar2].start, params))
                braced = src.is_p(b_lo, '{')
                inserts.append((src.toks[b_lo].start, ' -> (%s)\n%s\n%s' % (ret, contract, '' if braced else '{ ')))
                if not braced:
                    inserts.append((src.toks[b_hi].end, ' }'))
                continue
            if needle == '@span':
                replacements.append(txt)
                continue
            if needle == '@dropfn':
                k = lo_tok
                found = False
                while k < hi_tok:
                    if src.is_id(k, 'fn') and src.is_id(k + 1, txt):
                        b = k
                        while not src.is_p(b, '{'):
                            b += 1
                        replacements.append((src.toks[k].start, src.toks[src.match[b]].end, ''))
                        found = True
                        break
                    k += 1
                if not found:
                    raise LostAnchor('dropfn: nested fn %s not found' % txt)
                self.drops.add('nested fn `%s` extracted as a function of its own' % txt)
                continue
            if needle == '@replace':
                # R10: a declared text substitution (the n-th occurrence of OLD, whitespace-insensitive, becomes NEW);
                # used for iterator-adapter expressions that are replaced by a call to their summary function
                old, new = txt
                base = src.toks[lo_tok].start
                body = src.text[base:src.toks[hi_tok].end]
                # (tokens of OLD, separated by any white space and line comments)
                # the word __ANY__ in OLD stands for any text (shortest match): used for the body of a closure that is under contract
                # on its own, so that an edit of that body fails the closure's named obligation instead of losing this anchor
                pat = re.compile(r'(?:\s|//[^\n]*)*'.join(r'[\s\S]*?' if t == '__ANY__' else re.escape(t) for t in re.findall(r'\w+|[^\w\s]', old)))
                ms = list(pat.finditer(body))
                if n >= len(ms):
                    raise LostAnchor('replace: %r not found' % old)
                replacements.append((base + ms[n].start(), base + ms[n].end(), new))
                self.drops.add('R10: `%s` ==> `%s`' % (old, new))
                continue
            if needle == '@loopstub':
                # R4c: in the enclosing function the n-th loop is replaced by a call to its summary function, whose
                # contract is the fold of the (separately verified) body contract over the items (A-iter)
                loops = find_loops(src, lo_tok, hi_tok)
                n = resolve_loop(loops, n)
                if n >= len(loops):
                    raise LostAnchor('loopstub: loop %d not found' % n)
                kwtok, kind, hdr, bopen = loops[n]
                # a labelled loop: include the label
                st = kwtok
                if src.is_p(kwtok - 1, ':') and src.toks[kwtok - 2].kind == 'lifetime':
                    st = kwtok - 2
                replacements.append((src.toks[st].start, src.toks[src.match[bopen]].end, txt))
                continue
            if needle == '@tail':
                # before the tail expression (or the closing brace) of the block [lo_tok, hi_tok]
                k, last_semi = lo_tok + 1, None
                while k < hi_tok:
                    t = src.toks[k]
                    if t.kind == 'punct' and t.text in '([{':
                        k = src.match[k]
                        # a block statement (if/loop/match) ends a statement too
                        if t.text == '{' and not src.is_p(k + 1, '.') and not src.is_p(k + 1, '?'):
                            last_semi = k
                    elif t.kind == 'punct' and t.text == ';':
                        last_semi = k
                    k += 1
                pos_tok = (last_semi + 1) if last_semi is not None else lo_tok + 1
                # if the "tail" after a block statement is `else`, fall back to the closing brace
                if src.is_id(pos_tok, 'else'):
                    pos_tok = hi_tok
                inserts.append((src.toks[pos_tok].start, '\n' + txt + '\n'))
                continue
            if needle == '@close':
                # after the last expression of a `()` block: the tail expression becomes a statement, the proof follows it
                inserts.append((src.toks[hi_tok].start, ';\n' + txt + '\n'))
                self.drops.add('R2: the tail expression of a unit-valued body is made a statement (`;`) so that a proof block can follow it')
                continue
            base = src.toks[lo_tok].start
            body = src.text[base:src.toks[hi_tok].end]
            pos = -1
            for _ in range(n + 1):
                pos = body.find(needle, pos + 1)
                if pos < 0:
                    raise LostAnchor('proof anchor not found: %r' % needle)
            inserts.append((base + pos, '\n' + txt + '\n'))
        events = [(off, 0, txt, off) for off, txt in inserts] + [(a, 1, txt, b) for a, b, txt in replacements]
        events.sort(key=lambda e: (e[0], e[1]))
        segs = []
        cur = src.toks[lo_tok].start
        end = src.toks[hi_tok].end
        for off, kind, txt, upto in events:
            if off > cur:
                segs.append((src.text[cur:off], 'code', src.line_of(cur)))
            segs.append((txt, 'spec', src.line_of(off)))
            cur = max(cur, upto)
        segs.append((src.text[cur:end], 'code', src.line_of(cur)))
        return segs

    def emit_segs(self, segs, rel):
        # join segments but keep the line map right: emit each segment on its own lines
        for text, kind, line in segs:
            if kind == 'code':
                self.emit(self.clean(text), 'code', rel, line)
            else:
                self.emit(text.strip('\n'), 'spec', rel, line, False)

    def parse_block(self, block):
        """Split the `//@ ` lines of a block into contract / loop insertions / proof insertions / raw header."""
        contract, loops, proofs = [], {}, []
        self_closures = []
        cur = contract
        for (ln, raw) in block:
            s = raw.strip()
            if s.startswith('//@loop') and not s.startswith('//@loopstub'):
                n = s.split()[1]
                n = int(n) if n.isdigit() else n      # ordinal or `hdr:TEXT`
                loops[n] = []
                cur = loops[n]
            elif s.startswith('//@closurespec'):
                m = re.match(r'//@closurespec\s+(\d+)\s+\|(.*)\|\s*->\s*(.*)$', s)
                entry = [int(m.group(1)), m.group(2).strip(), m.group(3).strip(), []]
                self_closures.append(entry)
                cur = entry[3]
            elif s.startswith('//@replace'):
                m = re.match(r'//@replace\s+(\d+)\s+(.*?)\s+==>\s+(.*)$', s)
                self_closures.append(['replace', int(m.group(1)), m.group(2), m.group(3)])
                cur = []
            elif s.startswith('//@dropfn'):
                # a nested fn item of the body that is extracted (and put under contract) on its own
                self_closures.append(['dropfn', 0, s.split()[1]])
                cur = []
            elif s.startswith('//@loopstub'):
                m = re.match(r'//@loopstub\s+(\d+|hdr:\S+)\s+(.*)$', s)
                sel = m.group(1)
                self_closures.append(['loopstub', int(sel) if sel.isdigit() else sel, m.group(2)])
                cur = []
            elif s.startswith('//@proof'):
                m = re.match(r'//@proof\s+(\d+)\s+(.*)$', s)
                entry = [int(m.group(1)), m.group(2), []]
                proofs.append(entry)
                cur = entry[2]
            elif s.startswith('//@'):
                cur.append(s[3:].lstrip(' ') if not raw.startswith('//@  ') else raw[3:])
            else:
                cur.append(raw)
        pr = [(n, needle, '\n'.join(v)) for n, needle, v in proofs]
        for ent in self_closures:
            if ent[0] == 'loopstub':
                pr.append((ent[1], '@loopstub', ent[2]))
                continue
            if ent[0] == 'dropfn':
                pr.append((0, '@dropfn', ent[2]))
                continue
            if ent[0] == 'replace':
                pr.append((ent[1], '@replace', (ent[2], ent[3])))
                continue
            (n, params, ret, v) = ent
            pr.append((n, '@closure', (params, ret, '\n'.join(v))))
        return ('\n'.join(contract), {n: '\n'.join(v) for n, v in loops.items()}, pr)

    def begin_block(self, oblig, kind, rel, src, lo_tok, hi_tok, what):
        if oblig in self.blocks:
            raise LostAnchor('duplicate obligation id ' + oblig)
        self.cur_block = oblig
        self.blocks[oblig] = {'kind': kind, 'src': rel, 'what': what,
                              'line_lo': src.toks[lo_tok].line, 'line_hi': src.line_of(src.toks[hi_tok].end - 1),
                              'gen_lo': len(self.out) + 1,
                              'sha': hashlib.sha256(src.text[src.toks[lo_tok].start:src.toks[hi_tok].end].encode()).hexdigest()[:16]}

    def end_block(self, contract_lo=None, contract_hi=None, twin_ok=True):
        b = self.blocks[self.cur_block]
        oblig = self.cur_block
        b['gen_hi'] = len(self.out)
        self.cur_block = None
        if contract_lo is None or not twin_ok or self.twins == 'none':
            return
        contract = '\n'.join(self.out[contract_lo:contract_hi])
        if re.search(r'\bspec\s+fn\b', '\n'.join(self.out[b['gen_lo'] - 1:contract_hi])):
            return   # a lifted spec function has no ensures to be vacuous about
        has_req = re.search(r'^\s*requires\b', contract, re.M) is not None
        if self.twins == 'req' and not has_req:
            return
        self.make_twin(oblig, b['gen_lo'] - 1, contract_lo, contract_hi, b['gen_hi'])

    def make_twin(self, oblig, lo, c_lo, c_hi, hi):
        tw = 'VACUITY.' + oblig
        self.blocks[tw] = dict(self.blocks[oblig], kind='vacuity-twin', gen_lo=len(self.out) + 1, of=oblig)
        lines = list(self.out[lo:hi])
        maps = [dict(m, block=tw) for m in self.map[lo:hi]]
        renamed = False
        for k in range(0, c_hi - lo):
            m = re.search(r'\bfn\s+(\w+)', lines[k])
            if m:
                lines[k] = lines[k][:m.start(1)] + m.group(1) + '__vacuity_twin' + lines[k][m.end(1):]
                renamed = True
                break
        if not renamed:
            raise LostAnchor('cannot name vacuity twin of ' + oblig)
        pre, con, post = lines[:c_lo - lo], lines[c_lo - lo:c_hi - lo], lines[c_hi - lo:]
        mpre, mcon, mpost = maps[:c_lo - lo], maps[c_lo - lo:c_hi - lo], maps[c_hi - lo:]
        kept = strip_ensures('\n'.join(con)).split('\n') if con else []
        spec_map = (mcon[0] if mcon else maps[0])
        self.out += pre
        self.map += mpre
        for l in kept + ['    ensures false,']:
            self.out.append(l)
            self.map.append(dict(spec_map, kind='spec', block=tw))
        self.out += post
        self.map += mpost
        self.blocks[tw]['gen_hi'] = len(self.out)

    def do_fn(self, parts, block, specfile, specline):
        pos, kw = self.kv(parts)
        rel, selector = pos[0], pos[1]
        src, it = self.find_fn(rel, selector)
        oblig = kw.get('as', selector.replace('::', '.'))
        contract, loops, proofs = self.parse_block(block)
        self.begin_block(oblig, 'whole', rel, src, it.sig_start, it.end, selector)
        start_out = len(self.out)
        for a in kw.get('attr', '').split(';'):
            if a:
                self.emit('#[%s]' % a, 'spec', specfile, specline, False)
        head, rest = self.named_sig(src, it, kw.get('ret', 'r'))
        in_trait = any(k == 'trait' or (k == 'impl' and re.search(r'\bfor\b(?!\s*<)', strip_generics(h))) for (k, h, _) in it.ctx)
        head = self.clean(head)
        if 'implgen' in kw:
            head = impl_to_generic(head, kw['implgen'])
        if not in_trait:
            head = 'pub ' + head
        self.emit(head, 'code', rel, it.line)
        if rest:
            self.emit(self.clean(rest), 'code', rel, it.line)
        hdr_end = len(self.out)
        if contract.strip():
            self.emit(contract, 'spec', specfile, specline + 1)
        contract_end = len(self.out)
        segs = self.body_with_insertions(src, it.body_open, it.end, loops, proofs, rel)
        self.emit_segs(segs, rel)
        self.end_block(hdr_end, contract_end, twin_ok=not in_trait)

    # .................................................................. arm
    def locate_match(self, src, it, kw):
        ms = find_matches(src, it.body_open, it.end)
        if 'scrut' in kw:
            want = norm(kw['scrut'])
            ms = [m for m in ms if norm(m[1]) == want]
        k = int(kw.get('match', 0))
        if k >= len(ms):
            raise LostAnchor('match #%d not found in %s' % (k, it.name))
        return ms[k]

    def do_arm(self, parts, block, specfile, specline):
        pos, kw = self.kv(parts)
        rel, selector = pos[0], pos[1]
        src, it = self.find_fn(rel, selector)
        m = self.locate_match(src, it, kw)
        arms = split_arms(src, m[2])
        want = norm(kw['pat'])
        cands = [a for a in arms if norm(a.pat) == want or norm(a.pat).split('{')[0].split('(')[0] == want]
        if len(cands) != 1:
            raise LostAnchor('arm %s: %d candidates in %s' % (kw['pat'], len(cands), selector))
        arm = cands[0]
        oblig = kw['as']
        header, loops, proofs = self.parse_block(block)
        self.begin_block(oblig, 'arm', rel, src, arm.pat_tok, arm.body_hi, selector + ' arm ' + kw['pat'])
        bm = re.match(r'^[\w:]+\s*\(\s*(?:ref\s+)?(\w+)\s*\)$', arm.pat.strip())
        bind = bm.group(1) if bm else '_nobind'
        if bind == '_':
            bind = '_unused'
        header = header.replace('$PAT', arm.pat).replace('$GUARD', arm.guard or 'true').replace('$BIND', bind)
        c_lo = len(self.out)
        self.emit(header, 'spec', specfile, specline + 1)
        c_hi = len(self.out)
        pre = kw.get('pre', '').replace('~', ' ')
        suffix = kw.get('suffix', '').replace('~', ' ')
        self.emit('{' + pre, 'spec', specfile, specline, False)
        if suffix:
            # R3: the arm is a statement of a loop body whose function ends with `suffix`; a `continue` of that loop ends the arm
            inner = [(l[0], src.match[l[3]]) for l in find_loops(src, arm.body_lo, arm.body_hi)]
            for k in range(arm.body_lo, arm.body_hi + 1):
                if src.is_id(k, 'continue') and (src.is_p(k + 1, ';') or src.is_p(k + 1, ',') or src.is_p(k + 1, '}')) and not any(a < k < b for a, b in inner):
                    proofs = list(proofs) + [(0, '@span', (src.toks[k].start, src.toks[k].end, 'return ' + suffix))]
                    self.drops.add('R3: `continue` in a sliced match arm of a loop body becomes `return`')
        segs = self.body_with_insertions(src, arm.body_lo, arm.body_hi, loops, proofs, rel)
        self.emit_segs(segs, rel)
        self.emit((';' + suffix if suffix else '') + '}', 'spec', specfile, specline, False)
        self.end_block(c_lo, c_hi)

    def do_closure(self, parts, block, specfile, specline):
        pos, kw = self.kv(parts)
        rel, selector = pos[0], pos[1]
        src, it = self.find_fn(rel, selector)
        if 'name' in kw:
            c = find_closure(src, it.body_open, it.end, kw['name'])
            if c is None:
                raise LostAnchor('closure %s not found in %s' % (kw['name'], selector))
            let_tok, params, b_lo, b_hi, end_tok = c
        else:
            cs = find_inline_closures(src, it.body_open, it.end)
            if kw.get('nth') == 'params':
                # semantic anchor: the unique inline closure with exactly these parameters
                cand = [i for i, c in enumerate(cs) if norm(c[1]) == norm(kw['params'].replace('~', ' '))]
                if len(cand) != 1:
                    raise LostAnchor('inline closure with params %r: %d candidates in %s' % (kw['params'], len(cand), selector))
                n = cand[0]
            else:
                n = int(kw.get('nth', 0))
            if n >= len(cs):
                raise LostAnchor('inline closure %d not found in %s' % (n, selector))
            let_tok, params, b_lo, b_hi = cs[n]
            end_tok = b_hi
            if 'params' in kw and norm(kw['params'].replace('~', ' ')) != norm(params):
                raise LostAnchor('inline closure %d of %s has params %r' % (n, selector, params))
            kw['name'] = '#%d' % n
        oblig = kw['as']
        header, loops, proofs = self.parse_block(block)
        self.begin_block(oblig, 'closure', rel, src, let_tok, end_tok, selector + ' closure ' + kw['name'])
        header = header.replace('$PARAMS', params)
        c_lo = len(self.out)
        self.emit(header, 'spec', specfile, specline + 1)
        c_hi = len(self.out)
        braced = src.is_p(b_lo, '{')
        if not braced:
            self.emit('{', 'spec', specfile, specline, False)
        segs = self.body_with_insertions(src, b_lo, b_hi, loops, proofs, rel)
        self.emit_segs(segs, rel)
        if not braced:
            self.emit('}', 'spec', specfile, specline, False)
        self.end_block(c_lo, c_hi)

    @staticmethod
    def method_rules(block):
        """block lines -> (extra_text, [(regex, contract_text, attrs)])"""
        extra, rules, cur = [], [], None
        for (ln, raw) in block:
            s = raw.strip()
            if s.startswith('//@methods'):
                parts = s.split()
                cur = [re.compile('^(?:%s)$' % parts[1]), [], [p[5:] for p in parts[2:] if p.startswith('attr=')]]
                rules.append(cur)
            elif s.startswith('//@extra'):
                cur = None
            elif s.startswith('//@'):
                (cur[1] if cur is not None else extra).append(raw.strip()[3:])
            else:
                (cur[1] if cur is not None else extra).append(raw)
        return '\n'.join(extra), [(r, '\n'.join(c), a) for r, c, a in rules]

    def emit_methods(self, src, rel, it, rules, prefix, specfile, specline, in_trait=True, mode='all'):
        """emit every fn item directly inside item `it` (trait or impl), each with the first matching contract.
        mode: 'all' | 'decls' (bodies dropped: declarations with contracts) | 'bodies' (only methods with a body)"""
        for f in src.items(it.body_open + 1, src.match[it.body_open]):
            if f.kw != 'fn':
                if f.kw in ('type', 'const'):
                    self.emit(self.clean(f.text), 'code', rel, f.line)
                continue
            f.ctx = [(it.kw, src.span_text(it.sig_start, it.body_open - 1), it)]
            contract, attrs = '', []
            for (rx, c, a) in rules:
                if rx.match(f.name):
                    contract, attrs = c, a
                    break
            oblig = prefix + '.' + f.name
            if '$VARIANT' in contract:
                contract = contract.replace('$VARIANT', self.variant_of_hook(f.name))
            if '$BVARIANT' in contract:
                # builder method `call_indirect[_at]` / `return_` / `const_` -> variant + its fields in declaration order,
                # both from the UNEXPANDED `enum Instr` (src/ir/mod.rs), i.e. independent of the macro's output
                import unit_f
                key = re.sub(r'_$', '', re.sub(r'_at$', '', f.name))
                found = [(n, fs) for n, fs in unit_f.variants(self) if re.sub(r'(?<!^)([A-Z])', r'_\1', n).lower() == key]
                if len(found) != 1:
                    raise LostAnchor('no Instr variant for builder method ' + f.name)
                # a positional client: the generated method is ALSO called with plain positional arguments in the declaration order of
                # the variant's fields, so that a method whose parameter LIST is permuted (fields of equal type) fails, although its
                # body -- which binds by name -- still looks right
                vname, vfields = found[0]
                cargs = ['a%d: %s' % (k, ft) for k, (_fn, ft) in enumerate(vfields)]
                cpass = ['a%d' % k for k in range(len(vfields))]
                is_at = f.name.endswith('_at')
                client_contract = contract.replace('$BVARIANT { $BFIELDS }', '%s { %s }' % (vname, ', '.join('%s: a%d' % (fn, k) for k, (fn, _) in enumerate(vfields)))).replace('$BVARIANT', vname)
                client = 'pub fn positional_client__%s(&mut self, %s) -> (r: &mut Self)\n%s\n{ self.%s(%s) }' % (
                    f.name, ', '.join((['position: usize'] if is_at else []) + cargs), client_contract, f.name, ', '.join((['position'] if is_at else []) + cpass))
                contract = contract.replace('$BVARIANT', found[0][0]).replace('$BFIELDS', ', '.join(fn for fn, _ in found[0][1]))
            else:
                client = None
            skipbody = 'skipbody' in attrs
            attrs = [a for a in attrs if a != 'skipbody']
            if mode == 'bodies' and (f.body_open is None or skipbody):
                continue
            if f.body_open is None or mode == 'decls':
                # declaration only: signature + contract + `;`
                for a in attrs:
                    self.emit('#[%s]' % a, 'spec', specfile, specline, False)
                head, rest = self.named_sig_decl(src, f) if f.body_open is None else self.named_sig(src, f, 'r')
                self.emit(self.clean(head), 'code', rel, f.line)
                if rest.strip():
                    self.emit(self.clean(rest), 'code', rel, f.line)
                if contract.strip():
                    self.emit(contract, 'spec', specfile, specline, False)
                self.emit(';', 'spec', specfile, specline, False)
                continue
            self.begin_block(oblig, 'whole', rel, src, f.sig_start, f.end, f.name)
            for a in attrs:
                self.emit('#[%s]' % a, 'spec', specfile, specline, False)
            head, rest = self.named_sig(src, f, 'r')
            head = self.clean(head)
            # R5e: a reference-pattern parameter `&x: &T` is desugared to `x_ref: &T` + `let x = *x_ref;`
            pats = re.findall(r'&(\w+)\s*:\s*&', head)
            for pn in pats:
                head = re.sub(r'&%s\s*:\s*&' % pn, '%s_ref: &' % pn, head)
            if not in_trait:
                head = 'pub ' + head
            self.emit(head, 'code', rel, f.line)
            if rest:
                self.emit(self.clean(rest), 'code', rel, f.line)
            c_lo = len(self.out)
            if contract.strip():
                self.emit(contract, 'spec', specfile, specline, False)
            c_hi = len(self.out)
            if pats:
                self.emit('{ ' + ' '.join('let %s = *%s_ref;' % (pn, pn) for pn in pats), 'spec', specfile, specline, False)
            self.emit_segs(self.body_with_insertions(src, f.body_open, f.end, {}, [], rel), rel)
            if pats:
                self.emit('}', 'spec', specfile, specline, False)
            if client:
                self.emit(client, 'spec', specfile, specline, False)
            self.end_block(c_lo, c_hi, twin_ok=False)

    def variant_of_hook(self, method):
        """visit_call_indirect[_mut] -> CallIndirect, using the variant names of the expanded `Instr` enum"""
        if not hasattr(self, '_variants'):
            src = self.source('@expanded')
            names = {}

            def walk(lo, hi):
                for it in src.items(lo, hi):
                    if it.kw == 'enum' and it.name == 'Instr':
                        body = src.text[src.toks[it.body_open].start + 1:src.toks[it.end].start]
                        for m in re.finditer(r'\b([A-Z]\w*)\s*\(', strip_inner_attrs(body)):
                            v = m.group(1)
                            snake = re.sub(r'(?<!^)([A-Z])', r'_\1', v).lower()
                            names[snake] = v
                    elif it.kw == 'mod' and it.body_open is not None:
                        walk(it.body_open + 1, src.match[it.body_open])
            walk(0, len(src.toks))
            self._variants = names
        key = re.sub(r'^visit_', '', re.sub(r'_mut$', '', method))
        if key not in self._variants:
            raise LostAnchor('no Instr variant for hook ' + method)
        return self._variants[key]

    def named_sig_decl(self, src, f):
        # a declaration ends with `;` : reuse named_sig on a pseudo item whose "body_open" is the `;`
        class P: pass
        p = P()
        p.sig_start, p.body_open, p.name = f.sig_start, f.end, f.name
        return self.named_sig(src, p, 'r')

    def find_container(self, rel, kw_, header):
        src = self.source(rel)
        want = norm(self.clean(header + ' '))

        def walk(lo, hi):
            for it in src.items(lo, hi):
                if it.kw in ('impl', 'trait') and it.body_open is not None:
                    h = norm(self.clean(src.span_text(it.sig_start, it.body_open - 1)))
                    if h == want:
                        return it
                if it.kw == 'mod' and it.body_open is not None and not it.has_cfg('test'):
                    r = walk(it.body_open + 1, src.match[it.body_open])
                    if r:
                        return r
            return None
        it = walk(0, len(src.toks))
        if it is None:
            raise LostAnchor('%s not found: %s %s' % (kw_, rel, header))
        return src, it

    def do_trait(self, parts, block, specfile, specline):
        """//@trait <src> <header> as=<prefix> : the whole trait, contracts inserted per method (R6)"""
        pos, kw = self.kv(parts)
        rel = pos[0]
        header = ' '.join(pos[1:])
        src, it = self.find_container(rel, 'trait', header)
        extra, rules = self.method_rules(block)
        self.emit('pub ' + self.clean(src.span_text(it.sig_start, it.body_open - 1)) + ' {', 'code', rel, it.line)
        if extra.strip():
            self.emit(extra, 'spec', specfile, specline, False)
        if 'split' in kw:
            # R8: the trait is emitted as declarations + contracts; its default bodies are verified in a sub-trait
            # (same signatures, same contracts, bodies verbatim) so that no trait-level cycle arises
            self.emit_methods(src, rel, it, rules, kw['as'], specfile, specline, in_trait=True, mode='decls')
            self.emit('}', 'spec', specfile, specline, False)
            hdr = self.clean(src.span_text(it.sig_start, it.body_open - 1))
            m = re.match(r'^trait\s+(\w+)(<[^>]*>)?', hdr.strip())
            sup = m.group(1) + (m.group(2) or '')
            self.emit('pub trait %s%s: %s {' % (kw['split'], m.group(2) or '', sup), 'spec', specfile, specline, False)
            self.emit_methods(src, rel, it, rules, kw['as'] + '.default', specfile, specline, in_trait=True, mode='bodies')
            self.emit('}', 'spec', specfile, specline, False)
            return
        self.emit_methods(src, rel, it, rules, kw['as'], specfile, specline, in_trait=True)
        self.emit('}', 'spec', specfile, specline, False)

    def do_implall(self, parts, block, specfile, specline):
        """//@implall <src> <header> as=<prefix> : a whole impl block, contracts inserted per method (R6)"""
        pos, kw = self.kv(parts)
        rel = pos[0]
        header = ' '.join(pos[1:])
        src, it = self.find_container(rel, 'impl', header)
        extra, rules = self.method_rules(block)
        hdr = self.clean(src.span_text(it.sig_start, it.body_open - 1))
        in_trait = re.search(r'\bfor\b(?!\s*<)', strip_generics(hdr)) is not None
        self.emit(hdr + ' {', 'code', rel, it.line)
        if extra.strip():
            self.emit(extra, 'spec', specfile, specline, False)
        self.emit_methods(src, rel, it, rules, kw['as'], specfile, specline, in_trait=in_trait)
        self.emit('}', 'spec', specfile, specline, False)

    def do_macro(self, parts, block, specfile, specline):
        """R9: a `macro_rules!` definition that generates methods is copied verbatim, its transcribers wrapped in
        `verus! { }` and contracts (which may use the macro's own metavariables) inserted after the signatures of
        the functions it generates.  Invocations are copied verbatim by `//@item <src> macrocall <name>`."""
        pos, kw = self.kv(parts)
        rel, name = pos[0], pos[1]
        src = self.source(rel)
        it = None
        for cand in src.items():
            if cand.kw == 'macro_rules' and cand.name == name:
                it = cand
        if it is None:
            raise LostAnchor('macro_rules %s not found in %s' % (name, rel))
        extra, rules = self.method_rules(block)
        prefix = kw['as']
        # transcribers: every `=> { ... }` at depth 1 of the macro body
        inserts = []   # (offset, text, is_contract, fnname)
        lo, hi = it.body_open, src.match[it.body_open]
        k = lo + 1
        nfn = 0
        while k < hi:
            if src.is_p(k, '=') and src.is_p(k + 1, '>') and src.is_p(k + 2, '{'):
                t_open, t_close = k + 2, src.match[k + 2]
                inserts.append((src.toks[t_open].end, ' verus! { ', None))
                inserts.append((src.toks[t_close].start, ' } ', None))
                j = t_open + 1
                while j < t_close:
                    if src.is_id(j, 'fn'):
                        # name: `$x` or ident
                        if src.is_p(j + 1, '$'):
                            fname = '$' + src.toks[j + 2].text
                            p = j + 3
                        else:
                            fname = src.toks[j + 1].text
                            p = j + 2
                        while not src.is_p(p, '('):
                            p += 1
                        close = src.match[p]
                        b = close + 1
                        ret_lo = ret_hi = None
                        if src.is_p(b, '-') and src.is_p(b + 1, '>'):
                            ret_lo = b + 2
                            q = ret_lo
                            while not src.is_p(q, '{'):
                                if src.toks[q].kind == 'punct' and src.toks[q].text in '([':
                                    q = src.match[q]
                                q += 1
                            ret_hi = q - 1
                            body_open = q
                        else:
                            q = b
                            while not src.is_p(q, '{'):
                                q += 1
                            body_open = q
                        contract = ''
                        for (rx, c, a) in rules:
                            if rx.match(fname):
                                contract = c
                                # attributes go before the visibility / `fn` keyword
                                st = j
                                while st - 1 > t_open and (src.is_id(st - 1, 'pub') or src.is_p(st - 1, ')') and src.is_id(src.match[st - 1] - 1, 'pub')):
                                    st = st - 1 if src.is_id(st - 1, 'pub') else src.match[st - 1] - 1
                                for at in a:
                                    if at.startswith('@'):
                                        continue
                                    inserts.append((src.toks[st].start, '#[%s] ' % at, None))
                                if '@divclosure' in a:
                                    # R6 (closurespec) inside a macro transcriber: a closure `|| panic!(..)` gets the contract of a
                                    # function that does not return (`ensures false`); the panic macro itself is shadowed (R1)
                                    if ret_lo is None:
                                        raise LostAnchor('divclosure: %s has no return type' % fname)
                                    rty = src.text[src.toks[ret_lo].start:src.toks[ret_hi].end]
                                    found = 0
                                    for q in range(body_open + 1, src.match[body_open]):
                                        if src.is_p(q, '|') and src.is_p(q + 1, '|') and src.is_id(q + 2, 'panic') and src.is_p(q + 3, '!') and src.is_p(q + 4, '('):
                                            inserts.append((src.toks[q + 2].start, '-> (x: %s) ensures false { ' % rty, None))
                                            inserts.append((src.toks[src.match[q + 4]].end, ' }', None))
                                            found += 1
                                    if found == 0:
                                        raise LostAnchor('divclosure: no `|| panic!(..)` closure in %s of macro %s' % (fname, name))
                                break
                        if ret_lo is not None:
                            inserts.append((src.toks[ret_lo].start, '(r: ', None))
                            inserts.append((src.toks[ret_hi].end, ')', None))
                        if contract.strip():
                            inserts.append((src.toks[body_open].start, '\n' + contract + '\n', fname))
                        nfn += 1
                        j = src.match[body_open]
                    j += 1
                k = t_close
            k += 1
        if nfn == 0:
            raise LostAnchor('macro %s generates no functions' % name)
        oblig = prefix
        self.begin_block(oblig, 'macro', rel, src, it.sig_start, it.end, 'macro_rules! ' + name)
        inserts.sort(key=lambda x: x[0])
        cur = src.toks[it.sig_start].start
        end = src.toks[it.end].end
        for off, txt, _ in inserts:
            if off > cur:
                self.emit(self.clean(src.text[cur:off]), 'code', rel, src.line_of(cur))
            self.emit(txt, 'spec', specfile, specline, False)
            cur = off
        self.emit(self.clean(src.text[cur:end]), 'code', rel, src.line_of(cur))
        self.end_block()

    def do_fnprefix(self, parts, block, specfile, specline):
        """R3b: the statements of a function body before a given statement, as a function of their own."""
        pos, kw = self.kv(parts)
        rel, selector = pos[0], pos[1]
        src, it = self.find_fn(rel, selector)
        needle = kw['upto'].replace('~', ' ')
        base = src.toks[it.body_open].end
        body = src.text[base:src.toks[it.end].start]
        k = body.find(needle)
        if k < 0:
            raise LostAnchor('fnprefix: %r not found in %s' % (needle, selector))
        # last token that ends before base+k
        hi = it.body_open
        while hi + 1 < it.end and src.toks[hi + 1].end <= base + k:
            hi += 1
        oblig = kw['as']
        header, loops, proofs = self.parse_block(block)
        self.begin_block(oblig, 'prefix', rel, src, it.body_open + 1, hi, selector + ' statements before `%s`' % needle)
        c_lo = len(self.out)
        self.emit(header, 'spec', specfile, specline + 1)
        c_hi = len(self.out)
        self.emit('{', 'spec', specfile, specline, False)
        segs = self.body_with_insertions(src, it.body_open + 1, hi, loops, proofs, rel)
        self.emit_segs(segs, rel)
        # `suffix=EXPR`: the value the prefix hands on (a local it has just computed)
        self.emit(kw.get('suffix', '').replace('~', ' ') + '\n}', 'spec', specfile, specline, False)
        self.end_block(c_lo, c_hi)

    def do_fnsuffix(self, parts, block, specfile, specline):
        """R3b: the statements of a function body from a given statement to the end, as a function of their own."""
        pos, kw = self.kv(parts)
        rel, selector = pos[0], pos[1]
        src, it = self.find_fn(rel, selector)
        needle = kw['from'].replace('~', ' ')
        base = src.toks[it.body_open].end
        body = src.text[base:src.toks[it.end].start]
        if body.count(needle) != 1:
            raise LostAnchor('fnsuffix: %r occurs %d times in %s' % (needle, body.count(needle), selector))
        k = body.find(needle)
        lo = it.body_open + 1
        while lo < it.end and src.toks[lo].start < base + k:
            lo += 1
        oblig = kw['as']
        header, loops, proofs = self.parse_block(block)
        self.begin_block(oblig, 'suffix', rel, src, lo, it.end - 1, selector + ' statements from `%s` to the end' % needle)
        c_lo = len(self.out)
        self.emit(header, 'spec', specfile, specline + 1)
        c_hi = len(self.out)
        self.emit('{', 'spec', specfile, specline, False)
        segs = self.body_with_insertions(src, lo, it.end - 1, loops, proofs, rel)
        self.emit_segs(segs, rel)
        self.emit('}', 'spec', specfile, specline, False)
        self.end_block(c_lo, c_hi)

    def do_loopbody(self, parts, block, specfile, specline):
        pos, kw = self.kv(parts)
        rel, selector = pos[0], pos[1]
        src, it = self.find_fn(rel, selector)
        loops = find_loops(src, it.body_open, it.end)
        if 'after' in kw:
            # semantic anchor: the first loop that follows the given text (e.g. the pattern of the match arm it lives in), so that
            # re-ordering arms / statements cannot silently pair a contract with another loop
            needle = norm(kw['after'].replace('~', ' '))
            base = src.toks[it.body_open].start
            body_n = norm(src.text[base:src.toks[it.end].end])
            if body_n.count(needle) != 1:
                raise LostAnchor('loopbody after=%r: %d occurrences in %s' % (kw['after'], body_n.count(needle), selector))
            # map the normalised offset back: walk tokens until the normalised prefix covers the needle start
            target = body_n.index(needle)
            acc = 0
            pos_tok = None
            for k in range(it.body_open, it.end + 1):
                acc += len(norm(src.toks[k].text))
                if acc > target:
                    pos_tok = k
                    break
            cand = [i for i, l in enumerate(loops) if l[0] >= pos_tok]
            if not cand:
                raise LostAnchor('loopbody after=%r: no loop follows in %s' % (kw['after'], selector))
            n = cand[0]
        elif kw.get('loop', 'hdr') == 'hdr':
            n = resolve_loop(loops, 'hdr:' + kw['hdr'])
        else:
            n = int(kw['loop'])
        if n >= len(loops):
            raise LostAnchor('loop %d not found in %s' % (n, selector))
        kwtok, kind, hdr, bopen = loops[n]
        if 'hdr' in kw and hnorm(kw['hdr'].lstrip('=').replace('~', ' ')) not in hnorm(hdr):
            raise LostAnchor('loop %d of %s has header %r, expected %r' % (n, selector, hdr, kw['hdr']))
        oblig = kw['as']
        header, lins, proofs = self.parse_block(block)
        self.begin_block(oblig, 'loopbody', rel, src, kwtok, src.match[bopen], selector + ' loop %d' % n)
        c_lo = len(self.out)
        self.emit(header.replace('$HDR', hdr), 'spec', specfile, specline + 1)
        c_hi = len(self.out)
        suffix = kw.get('suffix', '').replace('~', ' ')
        # `use` statements at the top level of the enclosing function are in scope in the loop body: copied verbatim
        uses = []
        k = it.body_open + 1
        while k < it.end:
            if src.is_id(k, 'use'):
                e = k
                while not src.is_p(e, ';'):
                    e += 1
                # a `use` behind `#[cfg(feature = ..)]` belongs to a build configuration that is not the one verified (R2)
                gated = src.is_p(k - 1, ']') and 'cfg' in src.span_text(src.match[k - 1], k - 1)
                if not gated:
                    uses.append(src.span_text(k, e))
                k = e
            elif src.toks[k].kind == 'punct' and src.toks[k].text in '([{':
                k = src.match[k]
            k += 1
        prelude = kw.get('prelude', '').replace('~', ' ')
        if prelude:
            self.drops.add('R4: loop-carried locals passed by value, rebound (`%s`) and returned' % prelude)
        if suffix or uses or prelude:
            # the body is a statement of a function that ends with `suffix` (e.g. `Ok(())` when the body uses `?`)
            self.emit('{ ' + prelude, 'spec', specfile, specline, False)
            for u in uses:
                self.emit(self.clean(u), 'code', rel, it.line, False)
        # R4: a labelled `continue 'L` inside the sliced body ends the body function with the value the directive assigns to that
        # label (`labels=L1:EXPR1,L2:EXPR2`): the caller-side meaning of each label is part of the summary that replaces the loop
        labels = dict(x.split(':', 1) for x in kw['labels'].replace('~', ' ').split(',')) if 'labels' in kw else {}
        inner_all = find_loops(src, bopen, src.match[bopen])
        stubbed = []
        for (n_, needle, _t) in proofs:
            if needle == '@loopstub':
                k_ = resolve_loop(inner_all, n_)
                if k_ < len(inner_all):
                    stubbed.append((inner_all[k_][0], src.match[inner_all[k_][3]]))
        for k in range(bopen + 1, src.match[bopen]):
            if any(a <= k <= b for a, b in stubbed):
                continue   # inside a loop that is replaced by its summary
            if src.is_id(k, 'continue') and src.toks[k + 1].kind == 'lifetime':
                lab = src.toks[k + 1].text.lstrip("'")
                if lab not in labels:
                    raise LostAnchor('loopbody: `continue \'%s` has no value in labels=' % lab)
                proofs = list(proofs) + [(0, '@span', (src.toks[k].start, src.toks[k + 1].end, 'return ' + labels[lab]))]
                self.drops.add("R4: `continue '%s` of a sliced loop body becomes `return %s`" % (lab, labels[lab]))
        # R4: a bare `return;` inside the sliced body leaves the ENCLOSING function; the body function reports that with the value the
        # directive names (`ret=EXPR`), and the summary that replaces the loop in the enclosing function returns on it
        if 'ret' in kw:
            rv = kw['ret'].replace('~', ' ')
            for k in range(bopen + 1, src.match[bopen]):
                if any(a <= k <= b for a, b in stubbed):
                    continue
                if src.is_id(k, 'return') and src.is_p(k + 1, ';'):
                    proofs = list(proofs) + [(0, '@span', (src.toks[k].start, src.toks[k].end, 'return ' + rv))]
                    self.drops.add('R4: `return;` of the enclosing function inside a sliced loop body becomes `return %s`' % rv)
        # R4: `return EXPR;` inside the sliced body leaves the ENCLOSING function with a value; the body function reports it wrapped
        # (`retwrap=CTOR` -> `return CTOR(EXPR);`)
        if 'retwrap' in kw:
            for k in range(bopen + 1, src.match[bopen]):
                if any(a <= k <= b for a, b in stubbed):
                    continue
                if src.is_id(k, 'return') and not src.is_p(k + 1, ';'):
                    e = k + 1
                    while not (src.is_p(e, ';') or src.is_p(e, ',') or src.is_p(e, '}')):
                        e = src.match[e] + 1 if src.toks[e].kind == 'punct' and src.toks[e].text in '([{' else e + 1
                    proofs = list(proofs) + [(0, '@span', (src.toks[k + 1].start, src.toks[e - 1].end,
                                                            '%s(%s)' % (kw['retwrap'], src.text[src.toks[k + 1].start:src.toks[e - 1].end])))]
                    self.drops.add('R4: `return EXPR` of the enclosing function inside a sliced loop body becomes `return %s(EXPR)`' % kw['retwrap'])
        # R4: a `continue` of THIS loop (not of a nested loop / closure) ends the body function: `return [suffix]`
        inner = [(l[0], src.match[l[3]]) for l in find_loops(src, bopen + 1, src.match[bopen])]
        for k in range(bopen + 1, src.match[bopen]):
            if src.is_id(k, 'continue') and (src.is_p(k + 1, ';') or src.is_p(k + 1, ',') or src.is_p(k + 1, '}')) and not any(a < k < b for a, b in inner):
                cv = kw['cont'].replace('~', ' ') if 'cont' in kw else suffix
                proofs = list(proofs) + [(0, '@span', (src.toks[k].start, src.toks[k].end, ('return ' + cv).strip()))]
                self.drops.add('R4: `continue` of a sliced loop body becomes `return`')
        segs = self.body_with_insertions(src, bopen, src.match[bopen], lins, proofs, rel)
        self.emit_segs(segs, rel)
        if suffix or uses or prelude:
            self.emit(suffix + '\n}', 'spec', specfile, specline, False)
        self.end_block(c_lo, c_hi)

    # ---------------------------------------------------------------- output
    def write(self, path):
        os.makedirs(os.path.dirname(path), exist_ok=True)
        with open(path, 'w') as f:
            f.write('\n'.join(self.out) + '\n')
        with open(path + '.map.json', 'w') as f:
            json.dump({'map': self.map, 'blocks': self.blocks}, f)


def hnorm(h):
    """loop headers up to the spelling of a by-reference iteration: `x in v.iter()` == `x in &v`, `x in v.iter_mut()` == `x in &mut v`"""
    t = norm(h)
    t = re.sub(r'\.iter_mut\(\)$', '', t)
    t = re.sub(r'\.iter\(\)$', '', t)
    t = re.sub(r'(^|in)&mut', r'\1', t)
    t = re.sub(r'(^|in)&', r'\1', t)
    return t


def resolve_loop(loops, sel):
    """loop selector: an ordinal, or `hdr:TEXT` = the unique loop whose header contains TEXT (whitespace-insensitive, ~ = space)"""
    if isinstance(sel, int):
        return sel
    want = norm(sel[4:].replace('~', ' '))
    if want.startswith('='):     # `hdr:=TEXT`: the header IS that text
        cand = [i for i, l in enumerate(loops) if hnorm(want[1:]) == hnorm(l[2])]
    else:
        cand = [i for i, l in enumerate(loops) if hnorm(want) in hnorm(l[2])]
    if len(cand) != 1:
        raise LostAnchor('loop selector %r matches %d loops' % (sel, len(cand)))
    return cand[0]


def impl_to_generic(head, name):
    """R6: the first argument-position `impl Bound` becomes a named type parameter (Rust's own desugaring),
    so that contracts can mention the type."""
    m = re.search(r':\s*impl\s+', head)
    if not m:
        raise LostAnchor('implgen: no `impl Trait` parameter in ' + head[:60])
    i = m.end()
    depth = 0
    j = i
    while j < len(head):
        c = head[j]
        if c in '<([':
            depth += 1
        elif c in '>)]':
            if depth == 0:
                break
            depth -= 1
        elif c == ',' and depth == 0:
            break
        j += 1
    bound = head[i:j].strip()
    head2 = head[:m.start()] + ': ' + name + head[j:]
    fm = re.search(r'\bfn\s+\w+', head2)
    k = fm.end()
    if head2[k:k + 1] == '<':
        return head2[:k + 1] + '%s: %s, ' % (name, bound) + head2[k + 1:]
    return head2[:k] + '<%s: %s>' % (name, bound) + head2[k:]


def strip_generics(h):
    """drop <...> groups so that `for` in `impl<T> X for Y` is found but `for<'a>` bounds are not"""
    out, depth = [], 0
    for i, c in enumerate(h):
        if c == '<':
            depth += 1
        elif c == '>' and i > 0 and h[i - 1] != '-':
            depth -= 1
        elif depth == 0:
            out.append(c)
    return ''.join(out)


def pubify_struct(text):
    """R2: every field of a struct becomes `pub` (text insertion before the field name / tuple field type)."""
    from rustlex import Source
    s = Source('<item>', text)
    # first `{` or `(` at depth 0 after the name
    k = 0
    while k < len(s.toks) and not (s.toks[k].kind == 'punct' and s.toks[k].text in '{('):
        k += 1
    if k >= len(s.toks):
        return text
    close = s.match[k]
    ins = []
    i = k + 1
    start_field = True
    angle = 0
    while i < close:
        t = s.toks[i]
        if start_field:
            ins.append(t.start)
            start_field = False
        if t.kind == 'punct' and t.text in '([{':
            i = s.match[i] + 1
            continue
        if t.kind == 'punct' and t.text == '<':
            angle += 1
        elif t.kind == 'punct' and t.text == '>' and not s.is_p(i - 1, '-'):
            angle -= 1
        elif t.kind == 'punct' and t.text == ',' and angle == 0:
            start_field = True
        i += 1
    out, cur = [], 0
    for off in ins:
        out.append(text[cur:off])
        out.append('pub ')
        cur = off
    out.append(text[cur:])
    return ''.join(out)


def strip_inner_attrs(text):
    """Remove `#[...]` attributes inside an item's text (field / variant attributes)."""
    out, i, n = [], 0, len(text)
    while i < n:
        if text[i] == '#' and i + 1 < n and text[i + 1] == '[':
            depth, j = 0, i + 1
            while j < n:
                if text[j] == '[':
                    depth += 1
                elif text[j] == ']':
                    depth -= 1
                    if depth == 0:
                        break
                j += 1
            i = j + 1
            continue
        out.append(text[i])
        i += 1
    return ''.join(out)


def strip_ensures(contract):
    """Keep everything up to the first `ensures` keyword at line start (requires / decreases stay)."""
    lines = contract.split('\n')
    out, skipping = [], False
    for l in lines:
        s = l.strip()
        if re.match(r'^ensures\b', s):
            skipping = True
            continue
        if re.match(r'^(requires|decreases|recommends|no_unwind)\b', s):
            skipping = False
        if not skipping:
            out.append(l)
    return '\n'.join(out)
