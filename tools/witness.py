"""Concrete witnesses: run the REAL walrus (path dependency of the replay crate on the tree under check) on
concrete inputs.  Used only to turn an undischarged obligation into a replayable counterexample (or to
reproduce one from a replay file); never to claim that a property holds."""
import os, json, subprocess, shutil, re

HERE = os.path.dirname(os.path.abspath(__file__))
VERIF = os.path.dirname(HERE)
REPLAY = os.path.join(VERIF, 'replay')

# batteries per property: list of argv lists (cheap first)
BATTERIES = {
    'C17': [['arena', '5']],
    'C05': [['gate']],
    'C10': [['dwarf']],
    'C11': [['offsets']],
    'C12': [['customs']],
    'C13': [['names']],
    'C14': [['config']],
    'C08': [['emit-twice'], ['customs']],
    'C06': [['gc'], ['gc', 'random', '300', '1']],
    'C07': [['gc'], ['gc', 'random', '300', '1']],
    'C04': [['entities']],
    'C19': [['maps'], ['entities']],
    'C16': [['visit'], ['visit-cf', '4', '3'], ['visit-deep', '100000']],
    'C03': [['op'], ['cf', '4', '3'], ['cf', '5', '2']],
    'C01': [['op'], ['cf', '4', '3'], ['entities'], ['builder', '60']],
    'C02': [['gc'], ['features'], ['names'], ['entities'], ['edits']],
    'C15': [['builder']],
    'C18': [['replace']],
    'C20': [['features'], ['op']],
}


def crate_for(repo, log):
    """the replay crate, pointed at `repo`; built (incrementally) against its current working tree"""
    if os.path.realpath(repo) == '/repo':
        d = REPLAY
    else:
        d = os.path.join(os.environ.get('VERIF_SCRATCH', '/var/tmp/walrus-verif-scratch'), 'replay-' + re.sub(r'\W', '_', repo))
        os.makedirs(d, exist_ok=True)
        subprocess.run(['rsync', '-a', '--delete', '--exclude', 'target', REPLAY + '/', d + '/'], check=True)
        p = os.path.join(d, 'Cargo.toml')
        s = open(p).read().replace('path = "/repo"', 'path = "%s"' % repo)
        open(p, 'w').write(s)
        # rsync keeps the source mtimes, which can be older than the copy's last build: make cargo look again
        for f in os.listdir(os.path.join(d, 'src')):
            os.utime(os.path.join(d, 'src', f), None)
    env = dict(os.environ, CARGO_NET_OFFLINE='true')
    p = subprocess.run(['cargo', 'build', '--offline'], cwd=d, env=env, capture_output=True, text=True)
    if p.returncode != 0:
        log('replay crate does not build against %s: %s' % (repo, p.stderr[-600:]))
        return None
    return os.path.join(d, 'target', 'debug', 'walrus-verif-replay')


def run_one(binary, argv, timeout=900):
    try:
        p = subprocess.run([binary] + argv, capture_output=True, text=True, timeout=timeout)
    except subprocess.TimeoutExpired:
        return None, None
    try:
        out = json.loads(p.stdout.strip().split('\n')[-1])
    except Exception:
        out = {'raw': p.stdout[-2000:], 'stderr': p.stderr[-2000:]}
    if p.returncode not in (0, 1, 2) and 'overflowed its stack' in (p.stderr or ''):
        # a traversal that exhausts a 2 MiB stack aborts the process: that is the observation
        return 1, {'violated': True, 'failures': [{'what': 'stack overflow (call-stack use grows with nesting depth)', 'stderr': p.stderr[-400:], 'argv': argv}]}
    return p.returncode, out


def open_keys():
    try:
        k = json.load(open(os.path.join(VERIF, 'known_findings.json')))
        return set(key for f in k.get('findings', []) if f.get('status') == 'open' for key in f.get('keys', []))
    except Exception:
        return set()


def find(prop, unit, oblig, info, repo, log, cache={}):
    """-> witness dict or None.  Results are cached per (repo, battery) within one check run."""
    key = (repo, 'bin')
    if key not in cache:
        cache[key] = crate_for(repo, log)
    binary = cache[key]
    if binary is None:
        return None
    batteries = list(BATTERIES.get(prop, []))
    # a failing operator arm: try that operator first
    m = re.match(r'^C\.parse\.arm\.(\w+)$', oblig or '')
    if m and prop in ('C03', 'C01', 'C20'):
        batteries.insert(0, ['op', m.group(1)])
    for argv in batteries:
        k = (repo, tuple(argv))
        if k not in cache:
            rc, out = run_one(binary, argv)
            cache[k] = (rc, out)
            log('witness battery %s: rc=%s' % (' '.join(argv), rc))
        rc, out = cache[k]
        if rc == 1 and out and out.get('failures'):
            # failures that are recorded open findings are not witnesses of anything new
            ok = open_keys()
            fresh = [f for f in out['failures'] if not (isinstance(f, dict) and f.get('finding_key') in ok)]
            if not fresh:
                continue
            f = fresh[0]
            w = {'battery': argv, 'failing_input': f, 'n_failures_shown': len(fresh)}
            if 'input_wasm_hex' in f:
                w['replay_argv'] = ['wasm-roundtrip', f['input_wasm_hex']]
            else:
                w['replay_argv'] = argv
            return w
    return None


def replay(path, repo):
    rep = json.load(open(path))
    w = rep.get('witness')
    if not w:
        print('replay file has no concrete witness (no-failing-input-found); failed obligation: %s' % rep.get('obligation'))
        for o in rep.get('verifier_output', [])[:3]:
            print(o)
        return 1
    if (w.get('battery') or [None])[0] == 'kani-leaf':
        # re-extract the statement from the tree and re-run the harness + the concrete boundary replay
        import kani_leaf
        r = kani_leaf.run(repo, os.environ.get('VERIF_SCRATCH', '/var/tmp/walrus-verif-scratch'), w['battery'][1], print)
        print(json.dumps({k: r.get(k) for k in ('status', 'witness', 'stmt')})[:2000])
        if r.get('status') == 'failed':
            print('VIOLATION property=%s replay=%s' % (rep.get('property'), path))
            return 1
        return 0 if r.get('status') == 'ok' else 2
    binary = crate_for(repo, print)
    if binary is None:
        return 2
    rc, out = run_one(binary, w['replay_argv'])
    print(json.dumps(out)[:3000])
    if rc == 1:
        print('VIOLATION property=%s replay=%s' % (rep.get('property'), path))
        return 1
    return 0 if rc == 0 else 2
