#!/usr/bin/env python3
"""dev tool (not part of any check): lemma_twins.py <unit>  -- for every proof fn with a precondition in gen/<unit>.rs a copy with `ensures false` and an empty body is appended and the file is verified: every such twin must FAIL (a twin that verifies means contradictory hypotheses).  Needs gen/<unit>.rs (tools/g.sh <unit>); writes /var/tmp/vt/<unit>_lt.rs."""
import re, sys, subprocess, json
unit=sys.argv[1]
s=open(f'/verif/gen/{unit}.rs').read()
lines=s.split('\n')
twins=[]; names=[]
i=0
while i < len(lines):
    l=lines[i]
    m=re.match(r'\s*pub (?:broadcast )?proof fn (\w+)', l)
    if m and 'external_body' not in lines[i-1] and 'axiom' not in l and '{' not in l:
        # header until a line that is exactly '{' (or ends the signature with '{' after ensures)
        j=i; hdr=[]
        while j < len(lines) and lines[j].strip()!='{' and not (lines[j].rstrip().endswith('{}')):
            hdr.append(lines[j]); j+=1
        if j>=len(lines) or lines[j].rstrip().endswith('{}'): i=j+1; continue
        text='\n'.join(hdr)
        if re.search(r'^\s*requires\b', text, re.M) and re.search(r'^\s*ensures\b', text, re.M):
            k=[n for n,h in enumerate(hdr) if re.match(r'\s*ensures\b', h)][0]
            head=hdr[:k]
            # drop decreases lines that follow ensures (if any) - keep those before
            dec=[h for h in hdr[k:] if re.match(r'\s*decreases\b', h)]
            name=m.group(1)
            t='\n'.join(head).replace('fn '+name+'(', 'fn '+name+'__twin(',1).replace('fn '+name+'<', 'fn '+name+'__twin<',1).replace('pub broadcast proof','pub proof')+'\n    ensures false,\n'+'\n'.join(dec)+'\n{\n}\n'
            twins.append(t); names.append(name)
        i=j+1
    else:
        i+=1
k=s.rindex('} // verus!')
open(f'/var/tmp/vt/{unit}_lt.rs','w').write(s[:k]+'\n'.join(twins)+s[k:])
print(unit, len(twins), 'lemma twins')
r=subprocess.run(['verus', f'/var/tmp/vt/{unit}_lt.rs','--triggers-mode','silent','--output-json','--multiple-errors','1'],capture_output=True,text=True,env=dict(__import__('os').environ, RUST_MIN_STACK='2000000000'))
out=r.stdout
try:
    j=json.loads(out[out.index('{'):])
    vr=j.get('verification-results',{})
    print('verified',vr.get('verified'),'errors',vr.get('errors'))
except Exception as e:
    print('no json', out[:300], r.stderr[-600:])
# which twins verified? those not mentioned in stderr errors
bad=[n for n in names if (n+'__twin') not in r.stderr]
print('twins NOT reported failing:', bad)
