#!/bin/bash
# run every claimed check (quick tier) on the current tree so that the evidence files that get committed describe the unchanged tree
cd /verif
git -C /repo status --short | grep -q . && { echo "/repo is dirty: refusing"; exit 2; }
for p in $(python3 -c "import json; print(' '.join(c['property_id'] for c in json.load(open('MANIFEST.json'))['checks']))"); do
  out=$(./check $p --tier quick 2>&1); rc=$?
  echo "$p rc=$rc $(echo "$out" | grep -E '^OK|^VIOLATION|^UNDECIDED' | head -2 | cut -c1-120)"
done
