"""Run Verus on one generated unit file and map its diagnostics back to obligations."""
import json, os, subprocess, time, re

VERUS = 'verus'


def run_verus(gen_path, rlimit=None, threads=8, extra=None, timeout=1800):
    cmd = [VERUS, gen_path, '--output-json', '--time', '--triggers-mode', 'silent',
           '--multiple-errors', '4', '--num-threads', str(threads)]
    # a generous resource limit: an obligation that needs more than the default on one run and less on another would make the
    # check flaky; failures (twins included) are still reported as failures
    cmd += ['--rlimit', str(rlimit or 30)]
    if extra:
        cmd += extra
    cmd += ['--', '--error-format=json']
    t0 = time.time()
    try:
        p = subprocess.run(cmd, capture_output=True, text=True, timeout=timeout,
                           cwd=os.path.dirname(gen_path), env=dict(os.environ, RUST_MIN_STACK='2000000000'))
    except subprocess.TimeoutExpired:
        return {'cmd': ' '.join(cmd), 'timeout': True, 'wall_s': time.time() - t0, 'diags': [], 'json': None,
                'raw': ''}
    wall = time.time() - t0
    diags = []
    for line in p.stderr.split('\n'):
        line = line.strip()
        if line.startswith('{') and '"$message_type"' in line:
            try:
                diags.append(json.loads(line))
            except Exception:
                pass
    # stdout: one JSON object (pretty printed)
    js = None
    out = p.stdout
    k = out.find('{')
    if k >= 0:
        try:
            js = json.loads(out[k:])
        except Exception:
            js = None
    return {'cmd': ' '.join(cmd), 'timeout': False, 'wall_s': wall, 'diags': diags, 'json': js,
            'raw': p.stderr[-20000:], 'rc': p.returncode}


DEFINITE = ('postcondition not satisfied', 'precondition not satisfied', 'invariant not satisfied',
            'assertion failed', 'possible arithmetic underflow/overflow', 'possible division by zero',
            'recommendation not met', 'loop invariant', 'decreases not satisfied', 'unreachable',
            'possible bit shift', 'cannot show', 'failed to prove', 'might fail', 'unable to prove', 'cannot prove')


def classify(diag):
    """-> ('definite'|'resource'|'unsupported'|'rustc'|'note', message)"""
    msg = diag.get('message', '')
    lvl = diag.get('level')
    if lvl != 'error':
        return 'note', msg
    if msg.startswith('aborting due to'):
        return 'note', msg
    low = msg.lower()
    if 'resource limit' in low or 'rlimit' in low or 'timed out' in low or 'timeout' in low:
        return 'resource', msg
    if any(low.startswith(d) or d in low for d in DEFINITE):
        return 'definite', msg
    if 'not supported' in low or 'unsupported' in low or 'the verifier does not yet support' in low:
        return 'unsupported', msg
    if diag.get('code'):
        return 'rustc', msg
    return 'other', msg


def map_errors(res, mapping):
    """Attach each error diagnostic to the obligation block(s) its spans fall into.
    Returns list of dict(block, cls, message, spans=[(file,line,kind)], gen_lines)."""
    lm = mapping['map']
    out = []
    for d in res['diags']:
        cls, msg = classify(d)
        if cls == 'note':
            continue
        blocks = []
        spans = []
        for sp in d.get('spans', []):
            ln = sp.get('line_start')
            if ln is None or ln - 1 >= len(lm) or ln < 1:
                continue
            m = lm[ln - 1]
            spans.append({'gen_line': ln, 'file': m['file'], 'line': m['line'], 'kind': m['kind'],
                          'primary': sp.get('is_primary', False),
                          'text': (sp.get('text') or [{}])[0].get('text', '').strip() if sp.get('text') else ''})
            if m.get('block'):
                blocks.append((sp.get('is_primary', False), m['block']))
        # prefer the block of the non-primary "at the end of the function body"/call site if the primary is
        # in a callee's contract; in practice: take any block among spans, primary first, but a block of
        # kind code is where the obligation *arises* (the function being verified)
        block = None
        # the function being verified is the one whose body contains a span of kind 'code', else any
        for sp in spans:
            m = lm[sp['gen_line'] - 1]
            if m.get('block') and m['kind'] == 'code':
                block = m['block']
        if block is None and blocks:
            block = sorted(blocks, key=lambda x: not x[0])[0][1]
        out.append({'block': block, 'cls': cls, 'message': msg, 'spans': spans,
                    'rendered': d.get('rendered', '')[:4000]})
    return out
