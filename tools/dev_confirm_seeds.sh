#!/bin/bash
# usage: confirm_seeds.sh PROP  -> /tmp/confirm-PROP.log
P=$1
W=/tmp/seed-$P
L=/tmp/confirm-$P.log
: > $L
for i in 1 2 3 4 5 6; do
  [ -d /tmp/seed-$P-out/$i ] || continue
  cd $W && git checkout -q -- . && git apply /tmp/seed-$P-out/$i/patch.diff || { echo "[$P-$i] APPLY FAILED" >> $L; continue; }
  cargo test --workspace --no-fail-fast --offline > /tmp/confirm-$P-$i.test 2>&1
  pass=$(grep -E "^test result" /tmp/confirm-$P-$i.test | sed -E 's/.* ([0-9]+) passed.*/\1/' | paste -sd+ | bc)
  fail=$(grep -E "^test result" /tmp/confirm-$P-$i.test | sed -E 's/.* ([0-9]+) failed.*/\1/' | paste -sd+ | bc)
  failing=$(grep -E "^test .* FAILED" /tmp/confirm-$P-$i.test | grep -v "tests::fuzz\|wasm_opt_ttf_fuzz\|watgen_fuzz" | wc -l)
  D=/tmp/seed-$P-out/$i/demo
  if [ -f $D/Cargo.toml ]; then
    (cd $D && (cargo test --offline || cargo run --offline)) > /tmp/confirm-$P-$i.demo_with 2>&1; with=$?
    if grep -q "^\[\[bin\]\]\|src/main.rs" $D/Cargo.toml 2>/dev/null || [ -f $D/src/main.rs ]; then (cd $D && cargo run --offline) > /tmp/confirm-$P-$i.demo_with 2>&1; with=$?; fi
  fi
  cd $W && git checkout -q -- .
  if [ -f $D/src/main.rs ]; then (cd $D && cargo run --offline) > /tmp/confirm-$P-$i.demo_without 2>&1; without=$?; else (cd $D && cargo test --offline) > /tmp/confirm-$P-$i.demo_without 2>&1; without=$?; fi
  echo "[$P-$i] tests passed=$pass failed=$fail non-baseline-failing=$failing demo_with_change_rc=$with demo_without_change_rc=$without" >> $L
done
cd $W && git status --short >> $L
echo DONE >> $L
