#!/bin/bash
# dev tool: behaviour-preserving patches (harmless/<i>/patch.diff) applied to a SCRATCH copy; every check that depends on a touched file is
# run; a VIOLATION line would be a false alarm.  usage: tools/run_harmless.sh <dir-with-numbered-subdirs>
cd "$(dirname "$(readlink -f "$0")")/.."
ROOT=$(pwd)
W=${HARMW:-/var/tmp/walrus-seedrun3}
mkdir -p $W/out
rsync -a --delete --exclude target /repo/ $W/repo/
export VERIF_REPO=$W/repo VERIF_OUT=$W/out VERIF_SCRATCH=$W/scratch
props_for() {
  case "$1" in
    *passes/used.rs|*passes/gc.rs) echo "C06 C07 C02 C12";;
    *local_function/emit.rs) echo "C03 C11 C20";;
    *local_function/mod.rs) echo "C03 C05 C10 C11 C15";;
    *local_function/context.rs) echo "C03 C20";;
    *module/data.rs|*src/const_expr.rs) echo "C04 C19 C20 C02 C05";;
    *module/elements.rs|*module/memories.rs|*module/globals.rs|*module/tables.rs|*module/imports.rs|*module/exports.rs) echo "C04 C19 C20 C02";;
    *module/mod.rs) echo "C05 C08 C12 C13 C14 C04";;
    *function_builder.rs) echo "C15 C18";;
    *tombstone_arena.rs|*arena_set.rs|*module/types.rs|*src/ty.rs) echo "C17 C04 C19";;
    *module/producers.rs) echo "C14 C08";;
    *module/config.rs) echo "C14 C05";;
    *src/parse.rs|*src/emit.rs) echo "C19";;
    *debug/expression.rs|*debug/dwarf.rs) echo "C10";;
    *debug/mod.rs) echo "C10 C12 C14";;
    *functions/mod.rs) echo "C11 C18 C10 C19 C08";;
    *ir/traversals.rs) echo "C16";;
    *ir/mod.rs) echo "C16 C03";;
    *) echo "C01";;
  esac
}
for d in $1/*/; do
  i=$(basename $d)
  [ -f $d/patch.diff ] || continue
  git -C $W/repo checkout -q -- .
  if ! git -C $W/repo apply $d/patch.diff 2>/dev/null; then echo "$i APPLY-FAILED"; continue; fi
  files=$(git -C $W/repo diff --name-only)
  ps=""; for f in $files; do ps="$ps $(props_for $f)"; done
  ps=$(echo $ps | tr ' ' '\n' | sort -u | tr '\n' ' ')
  for p in $ps; do
    out=$(./check $p 2>&1); rc=$?
    echo "$i [$files] $p rc=$rc $(echo "$out" | grep -E '^VIOLATION|^UNDECIDED' | head -1 | cut -c1-170)"
  done
done
git -C $W/repo checkout -q -- .
