"""Generate Verus mirror enums of wasmparser::Operator and wasm_encoder::Instruction (exact versions of
/repo/Cargo.lock, read from the cargo registry) and the correspondence `mirror(op, s)` between them.

The correspondence pairs variants by identical name and fields by name (struct variants) or position (tuple
variants); index-like fields go through the renumbering `s` chosen by the *operator-side field name*.  It is
not trusted: replay/ `validate-mirror` encodes every Instruction variant with the real wasm-encoder, decodes it
with the real wasmparser and compares with this table.
"""
import os, re, glob, sys, json

HOME = os.path.expanduser('~')


def registry_dir(name, version):
    c = glob.glob(os.path.join(HOME, '.cargo/registry/src/*/%s-%s' % (name, version)))
    if not c:
        raise RuntimeError('crate source not found: %s %s' % (name, version))
    return c[0]


def locked_version(repo, name):
    txt = open(os.path.join(repo, 'Cargo.lock')).read()
    # version that the root package `walrus` depends on: look for the walrus package block
    m = re.search(r'name = "walrus"\nversion = "[^"]*"\ndependencies = \[(.*?)\]', txt, re.S)
    deps = m.group(1)
    mm = re.search(r'"%s(?: ([0-9.]+))?"' % re.escape(name), deps)
    if mm and mm.group(1):
        return mm.group(1)
    vs = re.findall(r'name = "%s"\nversion = "([^"]*)"' % re.escape(name), txt)
    return vs[0]


def split_top(s, sep=','):
    out, depth, cur = [], 0, ''
    for ch in s:
        if ch in '([{<':
            depth += 1
        elif ch in ')]}>':
            depth -= 1
        if ch == sep and depth == 0:
            out.append(cur)
            cur = ''
        else:
            cur += ch
    if cur.strip():
        out.append(cur)
    return [x.strip() for x in out if x.strip()]


def parse_operators(wp_dir):
    txt = open(os.path.join(wp_dir, 'src/lib.rs')).read()
    k = txt.index('macro_rules! for_each_operator')
    body = txt[k:]
    ops = []
    for m in re.finditer(r'@(\w+)\s+(\w+)\s*(\{[^}]*\})?\s*=>\s*(visit_\w+)', body):
        prop, name, fields, _ = m.groups()
        fl = []
        if fields:
            for f in split_top(fields[1:-1]):
                fn, ft = f.split(':', 1)
                fl.append((fn.strip(), ft.strip().replace('$crate::', '')))
        ops.append({'name': name, 'proposal': prop, 'fields': fl})
    return ops


def parse_instructions(we_dir):
    txt = open(os.path.join(we_dir, 'src/core/code.rs')).read()
    k = txt.index('pub enum Instruction<')
    b = txt.index('{', k)
    depth, i = 0, b
    while True:
        if txt[i] == '{':
            depth += 1
        elif txt[i] == '}':
            depth -= 1
            if depth == 0:
                break
        i += 1
    body = re.sub(r'//[^\n]*', '', txt[b + 1:i])
    body = re.sub(r'#\[[^\]]*\]', '', body)
    ins = []
    for v in split_top(body):
        m = re.match(r'^(\w+)\s*(.*)$', v, re.S)
        name, rest = m.group(1), m.group(2).strip()
        if not rest:
            ins.append({'name': name, 'kind': 'unit', 'fields': []})
        elif rest[0] == '(':
            ins.append({'name': name, 'kind': 'tuple', 'fields': [(None, t) for t in split_top(rest[1:-1])]})
        else:
            fl = []
            for f in split_top(rest[1:-1]):
                fn, ft = f.split(':', 1)
                fl.append((fn.strip(), ft.strip()))
            ins.append({'name': name, 'kind': 'struct', 'fields': fl})
    return ins


# operator-side types we model; anything else becomes the opaque `Unmodelled`
WP_TYPES = {'u32': 'u32', 'u8': 'u8', 'i32': 'i32', 'i64': 'i64', 'BlockType': 'BlockType', 'MemArg': 'MemArg',
            "BrTable<'a>": 'BrTable', 'ValType': 'ValType', 'Ieee32': 'Ieee32', 'Ieee64': 'Ieee64',
            'V128': 'V128', 'HeapType': 'HeapType', '[u8; 16]': '[u8; 16]'}
WE_TYPES = {'u32': 'u32', 'u8': 'u8', 'i32': 'i32', 'i64': 'i64', 'f32': 'f32', 'f64': 'f64', 'i128': 'i128',
            'BlockType': 'BlockType', 'MemArg': 'MemArg', "Cow<'a, [u32]>": 'Vec<u32>', 'ValType': 'ValType',
            'HeapType': 'HeapType', 'Lane': 'u8', '[Lane; 16]': '[u8; 16]'}

# renumbering by operator-side field name
SIGMA = {'function_index': 'func', 'type_index': 'ty', 'table_index': 'table', 'table': 'table',
         'dst_table': 'table', 'src_table': 'table', 'mem': 'mem', 'dst_mem': 'mem', 'src_mem': 'mem',
         'global_index': 'global', 'local_index': 'local', 'data_index': 'data', 'elem_index': 'elem',
         'relative_depth': 'label', 'array_data_index': 'data', 'array_elem_index': 'elem'}


def wp_qual(t):
    return 'wasmparser::' + t if t in ('BlockType', 'MemArg', 'BrTable', 'ValType', 'Ieee32', 'Ieee64', 'V128', 'HeapType', 'Unmodelled') else t


def conv_field(opname, fname, ftype, target_type):
    """spec expression converting operator field `fname` (bound by the match) to the instruction side"""
    if ftype == 'u32' and fname in SIGMA:
        return 's.%s(%s)' % (SIGMA[fname], fname)
    if ftype == 'BlockType':
        return 'mirror_blocktype(%s, s)' % fname
    if ftype == 'MemArg':
        return 'mirror_memarg(%s, s)' % fname
    if ftype == 'ValType':
        return 'mirror_valtype(%s)' % fname
    if ftype == 'HeapType':
        return 'mirror_heaptype(%s)' % fname
    if ftype == 'Ieee32':
        return 'f32_of_bits(%s.bits())' % fname
    if ftype == 'Ieee64':
        return 'f64_of_bits(%s.bits())' % fname
    if ftype == 'V128':
        return 'v128_as_i128(%s)' % fname
    if ftype in ('u8', 'i32', 'i64', 'u32', '[u8; 16]'):
        return fname
    return None


def generate_parts(repo):
    """-> {'operators': enum text, 'instructions': enum text, 'table': per-operator mirror fns + dispatcher}"""
    txt, table, vers, parts = generate(repo, want_parts=True)
    return parts


def generate(repo, want_parts=False):
    wpv = locked_version(repo, 'wasmparser')
    wev = locked_version(repo, 'wasm-encoder')
    ops = parse_operators(registry_dir('wasmparser', wpv))
    ins = parse_instructions(registry_dir('wasm-encoder', wev))
    by_name = {i['name']: i for i in ins}
    out = []
    marks = {}
    w = out.append
    w('// GENERATED by tools/mirrorgen.py from wasmparser %s (for_each_operator!) and wasm-encoder %s (enum Instruction)' % (wpv, wev))
    w('// Operator: %d variants; Instruction: %d variants' % (len(ops), len(ins)))
    # Operator mirror
    marks['operators'] = len(out)
    w('pub enum Operator {')
    for o in ops:
        if o['fields']:
            fs = ', '.join('%s: %s' % (n, WP_TYPES.get(t, 'Unmodelled')) for n, t in o['fields'])
            w('    %s { %s },' % (o['name'], fs))
        else:
            w('    %s,' % o['name'])
    w('}')
    # Instruction mirror
    marks['instructions'] = len(out)
    w('pub enum Instruction {')
    modelled = {}
    for i in ins:
        ok = all(t in WE_TYPES for _, t in i['fields'])
        modelled[i['name']] = ok
        if i['kind'] == 'unit':
            w('    %s,' % i['name'])
        elif i['kind'] == 'tuple':
            w('    %s(%s),' % (i['name'], ', '.join(WE_TYPES.get(t, 'Unmodelled') for _, t in i['fields'])))
        else:
            w('    %s { %s },' % (i['name'], ', '.join('%s: %s' % (n, WE_TYPES.get(t, 'Unmodelled')) for n, t in i['fields'])))
    w('}')
    # mirror
    marks['table'] = len(out)
    w('// the correspondence; `s` is the renumbering (index spaces, labels)')
    w('pub open spec fn mirror(op: Operator, s: Sigma) -> Option<Instruction> {')
    w('    match op {')
    table = []
    small = []
    for o in ops:
        n = o['name']
        i = by_name.get(n)
        pat = 'Operator::%s' % n + (' { %s }' % ', '.join(f for f, _ in o['fields']) if o['fields'] else '')
        expr = None
        if n == 'BrTable':
            expr = 'Instruction::BrTable(wasm_encoder::vec_of(targets.targets().map_values(|d: u32| s.label(d))), s.label(targets.default()))'
        elif i is not None and modelled[n]:
            if i['kind'] == 'unit':
                expr = 'Instruction::%s' % n if not [f for f in o['fields'] if f[0] not in ()] or all(True for _ in o['fields']) else None
                # unit instruction with operator fields (e.g. reserved bytes): fields are dropped
            elif i['kind'] == 'tuple':
                if len(i['fields']) == len(o['fields']):
                    cs = [conv_field(n, fn, ft, it) for (fn, ft), (_, it) in zip(o['fields'], i['fields'])]
                    if all(cs):
                        expr = 'Instruction::%s(%s)' % (n, ', '.join(cs))
            else:
                of = dict(o['fields'])
                cs = []
                for (inm, it) in i['fields']:
                    if inm in of:
                        c = conv_field(n, inm, of[inm], it)
                        cs.append('%s: %s' % (inm, c) if c else None)
                    else:
                        cs.append(None)
                if all(cs) and len(cs) == len(o['fields']):
                    expr = 'Instruction::%s { %s }' % (n, ', '.join(cs))
        table.append({'op': n, 'paired': expr is not None, 'proposal': o['proposal']})
        if expr is None:
            pat = 'Operator::%s' % n + (' { .. }' if o['fields'] else '')
            w('        %s => None,' % pat)
        else:
            args = ''.join('%s, ' % f for f, _ in o['fields'])
            w('        %s => Some(mirror_%s(%ss)),' % (pat, n, args))
            params = ''.join('%s: %s, ' % (f, wp_qual(WP_TYPES.get(t, 'Unmodelled'))) for f, t in o['fields'])
            small.append('pub open spec fn mirror_%s(%ss: Sigma) -> Instruction { %s }' % (n, params, expr))
    w('    }')
    w('}')
    out += small
    if want_parts:
        a, b, c = marks['operators'], marks['instructions'], marks['table']
        hdr = out[0]
        parts = {'operators': '\n'.join([hdr] + out[a:b]), 'instructions': '\n'.join([hdr] + out[b:c]),
                 'table': '\n'.join([hdr] + out[c:])}
        return '\n'.join(out), table, {'wasmparser': wpv, 'wasm-encoder': wev}, parts
    return '\n'.join(out), table, {'wasmparser': wpv, 'wasm-encoder': wev}


if __name__ == '__main__':
    txt, table, vers = generate(sys.argv[1] if len(sys.argv) > 1 else '/repo')
    print(txt)
    sys.stderr.write('%d operators, %d paired\n' % (len(table), sum(1 for t in table if t['paired'])))
