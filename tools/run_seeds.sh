#!/bin/bash
# dev tool: every stored seed, applied to a SCRATCH COPY of /repo (never to /repo itself), checked with its property's check.
# usage: tools/run_seeds.sh [seed-prefix]      -> one line per seed on stdout
cd "$(dirname "$(readlink -f "$0")")/.."
ROOT=$(pwd)
W=${SEEDW:-/var/tmp/walrus-seedrun2}
mkdir -p $W/out
rsync -a --delete --exclude target /repo/ $W/repo/
export VERIF_REPO=$W/repo VERIF_OUT=$W/out VERIF_SCRATCH=$W/scratch
for d in seeded/*/; do
  s=$(basename $d); p=${s%-*}
  [ -n "$1" ] && [[ "$s" != $1* ]] && continue
  git -C $W/repo checkout -q -- . 
  if ! git -C $W/repo apply $ROOT/seeded/$s/patch.diff 2>/dev/null; then echo "$s APPLY-FAILED"; continue; fi
  out=$(./check $p 2>&1); rc=$?
  n=$(echo "$out" | grep -c "^VIOLATION")
  first=$(echo "$out" | grep "^VIOLATION" | head -1 | sed 's/.*obligation=//' | cut -c1-90)
  echo "$s rc=$rc violations=$n first=[$first]"
done
git -C $W/repo checkout -q -- .
