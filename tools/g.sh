#!/bin/bash
# dev helper: generate + verify one unit
cd /verif/tools && python3 -c "
import gen,sys
g=gen.Gen('/repo', '/var/tmp/walrus-expanded.rs')
g.run('$1.vrs')
g.write('/verif/gen/$1.rs')
" && cd /verif/gen && RUST_MIN_STACK=2000000000 verus $1.rs --triggers-mode silent ${@:2} 2>&1 | head -${LINES_MAX:-100}
