#!/usr/bin/env python3
"""./check <PROPERTY> [--tier quick|thorough]     decide one property on /repo's current working tree
   ./check --replay <path>                        re-run the concrete witness stored in a replay file
   ./check --rebaseline                           (maintainer) rewrite baseline_obligations.json from a clean run

Exit 0: every obligation of the property discharged (KNOWN-FINDING lines allowed).
Exit 1: `VIOLATION property=<id> replay=<path>` -- an obligation that is discharged on the pinned tree
        (baseline) now fails definitely, or a concrete failing input was found against the real code.
Exit 2: UNDECIDED -- lost anchor, unsupported construct, resource limit, failing obligation that is not in
        the baseline and has no witness, vacuous contract.  Never an alarm.
"""
import os, sys, json, time, hashlib, subprocess, shutil, argparse, re, glob

HERE = os.path.dirname(os.path.abspath(__file__))
VERIF = os.path.dirname(HERE)
sys.path.insert(0, HERE)
import gen as genmod
import verus_run
from props import PROPS, UNITS, ASSUMPTIONS

REPO = os.environ.get('VERIF_REPO', '/repo')
OUT = os.environ.get('VERIF_OUT', VERIF)   # (dev: a second tree can be checked side by side, e.g. tools/run_seeds.sh)
GEN = os.path.join(OUT, 'gen')
EVID = os.path.join(OUT, 'evidence')
REPLAYS = os.path.join(OUT, 'replays')
SCRATCH = os.environ.get('VERIF_SCRATCH', '/var/tmp/walrus-verif-scratch')


def tree_hash():
    h = hashlib.sha256()
    files = []
    for root in ('src', 'crates/macro/src'):
        for p in glob.glob(os.path.join(REPO, root, '**', '*.rs'), recursive=True):
            files.append(p)
    for p in ('Cargo.toml', 'Cargo.lock', 'crates/macro/Cargo.toml'):
        files.append(os.path.join(REPO, p))
    for p in sorted(files):
        h.update(p.encode())
        try:
            h.update(open(p, 'rb').read())
        except OSError:
            pass
    return h.hexdigest()[:20]


def ensure_expanded(log):
    """rustc's own macro expansion of the current tree (rule: macro-generated code is copied from here)."""
    th = tree_hash()
    d = os.path.join(SCRATCH, 'expanded')
    os.makedirs(d, exist_ok=True)
    out = os.path.join(d, th + '.rs')
    if os.path.exists(out) and os.path.getsize(out) > 100000:
        return out
    for old in glob.glob(os.path.join(d, '*.rs')):
        os.remove(old)
    work = os.path.join(SCRATCH, 'expand-src')
    os.makedirs(work, exist_ok=True)
    subprocess.run(['rsync', '-a', '--delete', '--exclude', 'target', '--exclude', '.git', REPO + '/', work + '/'],
                   check=True)
    env = dict(os.environ, CARGO_NET_OFFLINE='true', CARGO_TARGET_DIR=os.path.join(SCRATCH, 'expand-target'))
    t0 = time.time()
    p = subprocess.run(['cargo', '+nightly', 'rustc', '--offline', '--lib', '--', '-Zunpretty=expanded'],
                       cwd=work, env=env, capture_output=True, text=True)
    log('macro expansion: rc=%d %.1fs' % (p.returncode, time.time() - t0))
    if p.returncode != 0 or len(p.stdout) < 100000:
        sys.stderr.write(p.stderr[-3000:])
        return None
    with open(out, 'w') as f:
        f.write(p.stdout)
    return out


def load_json(path, default):
    try:
        return json.load(open(path))
    except Exception:
        return default


def scan_trusted(gen_path):
    """mechanical scan for everything that is assumed rather than proved in a generated file"""
    text = open(gen_path).read()
    found = []
    pats = [('external_body', r'#\[verifier::external_body\][^\n]*\n(?:\s*#\[[^\n]*\n)*\s*([^\n{;]*)'),
            ('assume_specification', r'assume_specification\s*(?:<[^\[]*>)?\s*\[([^\]]*)\]'),
            ('uninterp', r'uninterp\s+spec\s+fn\s+(\w+)'),
            ('admit', r'\b(admit\(\))'), ('assume', r'\b(assume\([^;]*\))'),
            ('axiom', r'(?:broadcast\s+)?(?:proof|axiom)\s+fn\s+(axiom_\w+)'),
            ('no_decreases', r'(exec_allows_no_decreases_clause)'),
            ('external', r'#\[verifier::external(?:_fn_specification|_type_specification)?\][^\n]*\n\s*([^\n{;]*)')]
    for kind, pat in pats:
        for m in re.finditer(pat, text):
            s = re.sub(r'\s+', ' ', m.group(1).strip())[:110]
            found.append('%s: %s' % (kind, s))
    return sorted(set(found))


class Run:
    def __init__(self, prop, tier, seed):
        self.prop = prop
        self.tier = tier
        self.seed = seed
        self.t0 = time.time()
        self.logs = []
        self.cfg = PROPS[prop]

    def log(self, msg):
        self.logs.append(msg)
        print('[check %s] %s' % (self.prop, msg), flush=True)


def run_unit(run, unit, expanded, twins):
    """generate + verify one unit. returns dict"""
    ucfg = UNITS[unit]
    out = {'unit': unit, 'status': 'ok', 'errors': [], 'blocks': {}, 'undecided': [], 'trusted': []}
    if ucfg.get('kind') == 'kani':
        return run_kani_unit(run, unit, ucfg, out)
    g = genmod.Gen(REPO, expanded, twins=twins)
    try:
        g.run(ucfg['spec'])
    except genmod.LostAnchor as e:
        out['status'] = 'lost-anchor'
        out['undecided'].append('lost-anchor: %s' % e)
        return out
    gen_path = os.path.join(GEN, unit + '.rs')
    g.write(gen_path)
    out['blocks'] = g.blocks
    out['gen_path'] = gen_path
    res = verus_run.run_verus(gen_path, rlimit=ucfg.get('rlimit'), threads=ucfg.get('threads', 8),
                              timeout=ucfg.get('timeout', 1500))
    out['cmd'] = res['cmd']
    out['wall_s'] = res['wall_s']
    if res['timeout']:
        out['status'] = 'timeout'
        out['undecided'].append('verus timeout')
        return out
    js = res['json'] or {}
    vr = js.get('verification-results', {})
    out['verified'] = vr.get('verified', 0)
    out['errors_n'] = vr.get('errors', 0)
    tm = js.get('times-ms', {})
    out['smt_ms'] = tm.get('smt', {}).get('total', 0)
    out['total_ms'] = tm.get('total', 0)
    out['rlimit_used'] = tm.get('smt', {}).get('rlimit-run', 0)
    mapping = {'map': g.map, 'blocks': g.blocks}
    errs = verus_run.map_errors(res, mapping)
    # confirmation pass: an obligation counts as failing only if it fails again under another solver seed and three times the resource
    # limit.  A false obligation fails under every seed; a failure that depends on the seed (quantifier instantiation order, resource
    # limit) is solver incompleteness, which must not be reported as a violation.  Vacuity twins are left as they are.
    suspects = set(e['block'] for e in errs if e['cls'] in ('definite', 'resource') and e.get('block') and g.blocks.get(e['block'], {}).get('kind') != 'vacuity-twin')
    if suspects and not os.environ.get('VERIF_NO_CONFIRM'):
        res2 = verus_run.run_verus(gen_path, rlimit=3 * (ucfg.get('rlimit') or 30), threads=ucfg.get('threads', 8), timeout=ucfg.get('timeout', 1500),
                                   extra=['--smt-option', 'smt.random_seed=7'])
        out['wall_s'] += res2['wall_s']
        if not res2['timeout'] and res2['json']:
            again = set(e['block'] for e in verus_run.map_errors(res2, mapping) if e.get('block'))
            dropped = sorted(suspects - again)
            if dropped:
                run.log('unit %s: %d failure(s) did not repeat under another solver seed and are not reported: %s' % (unit, len(dropped), ', '.join(dropped)))
                out.setdefault('unstable', []).extend(dropped)
                errs = [e for e in errs if e.get('block') not in dropped]
                js2 = res2['json'] or {}
                vr2 = js2.get('verification-results', {})
                out['verified'] = max(out['verified'], vr2.get('verified', 0))
                out['errors_n'] = min(out['errors_n'], vr2.get('errors', out['errors_n']))
    out['errors'] = errs
    if not js or (vr.get('encountered-vir-error') or (vr.get('encountered-error') and vr.get('verified', 0) == 0
                                                         and vr.get('errors', 0) == 0)):
        out['status'] = 'not-verifiable'
        msgs = [e['message'] for e in errs][:5]
        out['undecided'].append('verus could not process the unit (rustc/VIR error): ' + ' | '.join(msgs))
    out['trusted'] = scan_trusted(gen_path)
    return out


KANI_WITNESS = {}


def run_kani_unit(run, unit, ucfg, out):
    """Kani leaves: one obligation per leaf; a pass with unwinding assertions on is a complete proof"""
    import kani_leaf
    out.update({'verified': 0, 'errors_n': 0, 'smt_ms': 0, 'wall_s': 0.0, 'backend': 'kani', 'cmd': None})
    for oblig in ucfg['leaves']:
        try:
            r = kani_leaf.run(REPO, SCRATCH, oblig, run.log)
        except Exception as e:
            r = {'status': 'error', 'detail': repr(e)}
        out['wall_s'] += r.get('wall_s', 0)
        if r['status'] == 'lost-anchor':
            out['status'] = 'lost-anchor'
            out['undecided'].append('lost-anchor: %s' % r.get('detail'))
            return out
        if r['status'] == 'error':
            out['status'] = 'not-verifiable'
            out['undecided'].append('kani could not process leaf %s: %s' % (oblig, (r.get('output') or r.get('detail') or '')[-400:]))
            return out
        out['cmd'] = r['cmd']
        out['blocks'][oblig] = {'kind': 'kani-leaf', 'src': r['src'], 'what': r['what'], 'line_lo': r['line'], 'line_hi': r['line'] + r['stmt'].count('\n'),
                                'sha': r['sha'], 'gen_lo': 0}
        if r['status'] == 'ok':
            out['verified'] += 1
        else:
            out['errors_n'] += 1
            out['errors'].append({'block': oblig, 'cls': 'definite', 'message': 'Kani: the assertion of the leaf harness fails (VERIFICATION:- FAILED)',
                                  'spans': [{'file': r['src'], 'line': r['line'], 'kind': 'code'}], 'rendered': r['output']})
            if r.get('witness'):
                KANI_WITNESS[oblig] = r['witness']
    out['trusted'] = ['kani/cbmc: soundness of Kani 0.68 / CBMC 6.11; machine integers are bit-precise (no A-arith abstraction)']
    return out


def decide(run):
    cfg = run.cfg
    units = cfg['units']
    need_expanded = any(UNITS[u].get('expanded') for u in units)
    expanded = None
    if need_expanded:
        expanded = ensure_expanded(run.log)
        if expanded is None:
            return finish(run, [], undecided=['macro expansion of the working tree failed (does /repo build?)'])
    twins = 'req' if run.tier == 'quick' else 'all'
    results = []
    for u in units:
        r = run_unit(run, u, expanded, twins)
        run.log('unit %s: status=%s verified=%s errors=%s wall=%.1fs' % (
            u, r['status'], r.get('verified'), r.get('errors_n'), r.get('wall_s', 0)))
        results.append(r)
    return finish(run, results)


def finish(run, results, undecided=None):
    prop = run.prop
    cfg = run.cfg
    undecided = list(undecided or [])
    baseline = load_json(os.path.join(VERIF, 'baseline_obligations.json'), {})
    known = load_json(os.path.join(VERIF, 'known_findings.json'), {'findings': []})
    open_findings = [f for f in known.get('findings', []) if f.get('status') == 'open' and prop in f.get('properties', [])]
    wanted = cfg.get('obligations')   # None = every block of the units; else list of prefixes
    obligations, discharged, failed, twins_total, twins_failed = [], [], [], 0, 0
    trusted, cmds = [], []
    solver_ms = 0
    fn_list = []
    by_unit = {}
    for r in results:
        undecided += ['%s: %s' % (r['unit'], u) for u in r['undecided']]
        trusted += r['trusted']
        if r.get('cmd'):
            cmds.append(r['cmd'])
        solver_ms += r.get('smt_ms', 0)
        errs_by_block = {}
        spec_errs = []
        for e in r['errors']:
            if e['block']:
                errs_by_block.setdefault(e['block'], []).append(e)
            else:
                spec_errs.append(e)
        if r['status'] == 'ok':
            for e in spec_errs:
                undecided.append('%s: failure outside any extracted function (lemma/stub): %s @%s' % (
                    r['unit'], e['message'], ['%s:%s' % (s['file'], s['line']) for s in e['spans']][:2]))
        for b, info in r['blocks'].items():
            if info['kind'] == 'vacuity-twin':
                if wanted is not None and not any(info['of'].startswith(w) for w in wanted):
                    continue
                twins_total += 1
                if r['status'] == 'ok':
                    if b in errs_by_block:
                        twins_failed += 1
                    else:
                        undecided.append('%s: vacuity twin of %s verified `ensures false` (contradictory requires/stubs)' % (r['unit'], info['of']))
                continue
            if wanted is not None and not any(b.startswith(w) for w in wanted):
                continue
            obligations.append(b)
            fn_list.append({'obligation': b, 'repo_span': '%s:%d-%d' % (info['src'], info['line_lo'], info['line_hi']),
                            'slice': info['kind'], 'what': info['what'], 'text_sha': info['sha']})
            if r['status'] != 'ok':
                continue
            if b in errs_by_block:
                failed.append((r['unit'], b, errs_by_block[b], info))
            else:
                discharged.append(b)
        by_unit[r['unit']] = {'verified_fns_reported_by_verus': r.get('verified'), 'errors': r.get('errors_n'),
                              'smt_ms': r.get('smt_ms'), 'wall_s': round(r.get('wall_s', 0), 1),
                              'rlimit': r.get('rlimit_used')}

    violations, known_lines, undec_fail = [], [], []
    os.makedirs(REPLAYS, exist_ok=True)
    for unit, b, errs, info in failed:
        classes = set(e['cls'] for e in errs)
        detail = '; '.join(sorted(set('%s @ %s' % (e['message'], ','.join('%s:%s' % (s['file'], s['line']) for s in e['spans'] if s['kind'] == 'code')[:80]) for e in errs)))
        # known finding?
        kf = None
        for f in open_findings:
            if b in f.get('obligations', []):
                kf = f
        if kf:
            known_lines.append('KNOWN-FINDING: property=%s %s (obligation %s)' % (prop, kf['what'], b))
            obligations.remove(b)   # reported separately; never counted as discharged
            continue
        in_base = b in baseline.get(unit, [])
        witness = KANI_WITNESS.get(b) or find_witness(run, unit, b, info, errs)
        if not witness and 'definite' not in classes:
            undec_fail.append('%s: obligation %s not discharged (%s): %s' % (unit, b, ','.join(sorted(classes)), detail))
            continue
        if not witness and not in_base:
            undec_fail.append('%s: obligation %s fails but is not in the committed baseline and no failing input was found: %s' % (unit, b, detail))
            continue
        path = os.path.join(REPLAYS, '%s-%s.json' % (prop, re.sub(r'[^A-Za-z0-9_.-]', '_', b)))
        rep = {'property': prop, 'obligation': b, 'unit': unit, 'repo_span': '%s:%d-%d' % (info['src'], info['line_lo'], info['line_hi']),
               'slice': info['kind'], 'what': info['what'], 'in_baseline': in_base,
               'verifier_output': [e['rendered'] for e in errs], 'diagnostics': [{'message': e['message'], 'spans': e['spans']} for e in errs],
               'witness': witness, 'tree_hash': tree_hash()}
        json.dump(rep, open(path, 'w'), indent=1)
        violations.append((b, path, witness))

    # a unit that could not be generated / processed at all: a concrete failing input still decides
    for r in results:
        if r['status'] != 'ok':
            witness = find_witness(run, r['unit'], None, None, [])
            if witness:
                path = os.path.join(REPLAYS, '%s-%s.json' % (prop, r['unit'] + '-not-verifiable'))
                rep = {'property': prop, 'obligation': None, 'unit': r['unit'], 'why_no_obligation': r['undecided'],
                       'witness': witness, 'tree_hash': tree_hash()}
                json.dump(rep, open(path, 'w'), indent=1)
                violations.append((r['unit'] + ' (unit not verifiable: ' + r['status'] + ')', path, witness))
    undecided += undec_fail
    # bounded stand-ins for functions that could not be brought within the verifier's reach: always run, labelled
    # bounded, never counted as discharged; a failure is a concrete counterexample against the real code
    bounded = []
    for st in cfg.get('standins', []):
        try:
            import witness
            binary = witness.crate_for(REPO, run.log)
            argv = st.get('argv_thorough', st['argv']) if run.tier == 'thorough' else st['argv']
            rc, out = witness.run_one(binary, argv, timeout=3600) if binary else (None, None)
        except Exception as e:
            rc, out = None, {'error': repr(e)}
        entry = {'function': st['fn'], 'why_not_verified': st['why'], 'bound': st['bound'] + (' [thorough tier: replay %s, %s]' % (' '.join(argv), st.get('bound_thorough', 'larger bound')) if argv != st['argv'] else ''),
                 'command': 'replay ' + ' '.join(argv),
                 'result': 'pass' if rc == 0 else ('fail' if rc == 1 else 'not-run'),
                 'stats': {k: v for k, v in (out or {}).items() if not isinstance(v, (list, dict))}}
        bounded.append(entry)
        run.log('bounded stand-in %s: %s' % (' '.join(argv), entry['result']))
        if rc == 1:
            fails = (out or {}).get('failures') or []
            open_keys = {k: f for f in open_findings for k in f.get('keys', [])}
            if fails and all(f.get('finding_key') in open_keys for f in fails if isinstance(f, dict)) and all(isinstance(f, dict) for f in fails):
                for k in sorted(set(f['finding_key'] for f in fails)):
                    known_lines.append('KNOWN-FINDING: property=%s %s' % (prop, open_keys[k]['what']))
                entry['result'] = 'known-finding'
                continue
            path = os.path.join(REPLAYS, '%s-standin-%s.json' % (prop, '_'.join(st['argv'])))
            w = {'battery': st['argv'], 'failing_input': (out.get('failures') or [None])[0], 'replay_argv': st['argv']}
            json.dump({'property': prop, 'obligation': 'bounded stand-in for ' + st['fn'], 'witness': w, 'tree_hash': tree_hash()}, open(path, 'w'), indent=1)
            violations.append(('bounded stand-in for ' + st['fn'], path, w))
        elif rc != 0:
            undecided.append('bounded stand-in could not run: ' + ' '.join(st['argv']))
    wall = time.time() - run.t0
    n_obl = len(obligations)
    evidence = {
        'property_id': prop, 'tier': run.tier, 'seed': run.seed, 'level': 'proof',
        'coverage': {
            'obligations': n_obl, 'discharged': len(discharged),
            'checker_cmd': ' && '.join(cmds) if cmds else 'verus <gen/unit.rs> --output-json --time',
            'trusted_base': sorted(set(trusted)),
            'functions_under_contract': fn_list,
            'by_backend': {'verus': len([d for d in discharged if not d.startswith('L.')]), 'kani': len([d for d in discharged if d.startswith('L.')])},
            'per_unit': by_unit,
            'solver_ms': solver_ms,
            'vacuity_twins': {'generated': twins_total, 'failed_as_required': twins_failed},
            'bounded': bounded,
            'unclaimed_clauses': cfg.get('unclaimed', []),
            'claimed_clauses': cfg.get('claimed', []),
            'known_findings_reported': known_lines,
            'undecided': undecided,
            'samples': [{'obligation': f['obligation'], 'repo_span': f['repo_span'], 'slice': f['slice']} for f in fn_list[:6]],
            'extraction_rules_applied': cfg.get('rules', 'R1 R2 R6'),
            'tree_hash': tree_hash(),
        },
        'assumptions': [ASSUMPTIONS[a] for a in cfg.get('assumptions', [])],
        'wall_s': round(wall, 2),
        'violations': len(violations),
    }
    os.makedirs(EVID, exist_ok=True)
    json.dump(evidence, open(os.path.join(EVID, prop + '.json'), 'w'), indent=1)
    for l in known_lines:
        print(l)
    if violations:
        for b, path, witness in violations:
            tail = '' if witness else ' no-failing-input-found'
            print('VIOLATION property=%s replay=%s obligation=%s%s' % (prop, path, b, tail))
        return 1
    if undecided or n_obl == 0:
        for u in undecided:
            print('UNDECIDED property=%s %s' % (prop, u))
        if n_obl == 0:
            print('UNDECIDED property=%s no obligations were generated' % prop)
        return 2
    print('OK property=%s obligations=%d discharged=%d twins=%d/%d wall=%.1fs' % (
        prop, n_obl, len(discharged), twins_failed, twins_total, wall))
    return 0


def find_witness(run, unit, oblig, info, errs):
    """Ask the replay crate for a concrete failing input against the real code in /repo."""
    try:
        import witness
    except ImportError:
        return None
    try:
        return witness.find(run.prop, unit, oblig, info, REPO, run.log)
    except Exception as e:  # a broken witness search must never turn into an alarm
        run.log('witness search failed: %r' % (e,))
        return None


def main():
    ap = argparse.ArgumentParser()
    ap.add_argument('prop', nargs='?')
    ap.add_argument('--tier', default=os.environ.get('VERIF_TIER', 'quick'))
    ap.add_argument('--replay')
    ap.add_argument('--rebaseline', action='store_true')
    a = ap.parse_args()
    seed = int(os.environ.get('VERIF_SEED', '0') or 0)
    if a.replay:
        import witness
        sys.exit(witness.replay(a.replay, REPO))
    if a.rebaseline:
        return rebaseline()
    if a.prop not in PROPS:
        print('unknown property', a.prop)
        sys.exit(2)
    run = Run(a.prop, a.tier if a.tier in ('quick', 'thorough') else 'quick', seed)
    rc = decide(run)
    if rc == 0 and run.tier == 'thorough' and run.cfg.get('mutants'):
        import selftest
        rc = selftest.run(run)
    sys.exit(rc)


def rebaseline():
    base = {}
    expanded = ensure_expanded(print) if any(u.get('expanded') for u in UNITS.values()) else None
    for u in UNITS:
        class R:  # minimal run object
            prop = 'baseline'
            def log(self, m): print(m)
        r = run_unit(R(), u, expanded, 'none')
        bad = set(e['block'] for e in r['errors'] if e['block'])
        if r['status'] != 'ok':
            print('unit %s not ok: %s' % (u, r['undecided']))
            continue
        base[u] = sorted(b for b in r['blocks'] if b not in bad)
        print('unit %s: %d obligations in baseline, %d failing' % (u, len(base[u]), len(bad)), sorted(bad))
    json.dump(base, open(os.path.join(VERIF, 'baseline_obligations.json'), 'w'), indent=1, sort_keys=True)


if __name__ == '__main__':
    main()
