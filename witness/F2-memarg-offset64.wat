(module
  (memory i64 1)
  (func (param i64) (result i32)
    local.get 0 i32.load offset=0x100000010))
