(module
  (memory 1 1 shared)
  (func (param i32 i64) (result i64)
    local.get 0 local.get 1 i64.atomic.rmw8.add_u))
