//! C13 battery: names stay attached.  Every named entity of the corpus has a distinguishing attribute; the name
//! -> attribute maps of input and output are compared (output must attach each surviving name to the same entity).
use anyhow::Result;
use serde_json::{json, Value};
use std::collections::BTreeMap;
use wasmparser::*;

type Sig = BTreeMap<String, String>; // "kind:name" -> attribute

fn describe(wasm: &[u8]) -> Result<Sig> {
    let mut types: Vec<String> = vec![];
    let mut func_types: Vec<u32> = vec![];
    let mut n_imp_funcs = 0u32;
    let mut imp_func_names: Vec<String> = vec![];
    let mut tables: Vec<String> = vec![];
    let mut mems: Vec<String> = vec![];
    let mut globals: Vec<String> = vec![];
    let mut datas: Vec<String> = vec![];
    let mut elems: Vec<String> = vec![];
    let mut bodies: Vec<(Vec<String>, u32)> = vec![]; // ops, number of declared locals
    let mut names: Vec<(String, u32, Option<u32>, String)> = vec![]; // kind, idx, sub idx, name
    let mut module_name = None;
    for p in Parser::new(0).parse_all(wasm) {
        match p? {
            Payload::TypeSection(s) => for t in s.into_iter_err_on_gc_types() { let t = t?; types.push(format!("{:?}->{:?}", t.params(), t.results())); },
            Payload::ImportSection(s) => for i in s {
                let i = i?;
                match i.ty {
                    TypeRef::Func(t) => { func_types.push(t); n_imp_funcs += 1; imp_func_names.push(format!("{}.{}", i.module, i.name)); }
                    TypeRef::Table(t) => tables.push(format!("import {}.{} {}", i.module, i.name, t.initial)),
                    TypeRef::Memory(m) => mems.push(format!("import {}.{} {}", i.module, i.name, m.initial)),
                    TypeRef::Global(g) => globals.push(format!("import {}.{} {:?}", i.module, i.name, g.content_type)),
                    _ => {}
                }
            },
            Payload::FunctionSection(s) => for t in s { func_types.push(t?); },
            Payload::TableSection(s) => for t in s { tables.push(format!("local initial {}", t?.ty.initial)); },
            Payload::MemorySection(s) => for m in s { mems.push(format!("local initial {}", m?.initial)); },
            Payload::GlobalSection(s) => for g in s {
                let g = g?;
                let mut r = g.init_expr.get_operators_reader();
                globals.push(format!("local init {:?}", r.read()?));
            },
            Payload::DataSection(s) => for d in s { datas.push(crate::ops::hex(d?.data)); },
            Payload::ElementSection(s) => for e in s {
                let e = e?;
                let n = match e.items { ElementItems::Functions(r) => r.count(), ElementItems::Expressions(_, r) => r.count() };
                elems.push(format!("{} items", n));
            },
            Payload::CodeSectionEntry(b) => {
                let mut nl = 0;
                for l in b.get_locals_reader()? { nl += l?.0; }
                let mut v = vec![];
                let mut r = b.get_operators_reader()?;
                while !r.eof() { v.push(format!("{:?}", r.read()?)); }
                bodies.push((v, nl));
            }
            Payload::CustomSection(c) if c.name() == "name" => {
                let r = NameSectionReader::new(BinaryReader::new(c.data(), c.data_offset(), WasmFeatures::all()));
                for sub in r {
                    let mut take = |kind: &str, m: NameMap| -> Result<()> { for n in m { let n = n?; names.push((kind.to_string(), n.index, None, n.name.to_string())); } Ok(()) };
                    match sub? {
                        Name::Module { name, .. } => module_name = Some(name.to_string()),
                        Name::Function(m) => take("func", m)?,
                        Name::Type(m) => take("type", m)?,
                        Name::Table(m) => take("table", m)?,
                        Name::Memory(m) => take("memory", m)?,
                        Name::Global(m) => take("global", m)?,
                        Name::Element(m) => take("elem", m)?,
                        Name::Data(m) => take("data", m)?,
                        Name::Local(im) => for f in im { let f = f?; for n in f.names { let n = n?; names.push(("local".into(), f.index, Some(n.index), n.name.to_string())); } },
                        _ => {}
                    }
                }
            }
            _ => {}
        }
    }
    let mut out = Sig::new();
    if let Some(m) = module_name { out.insert("module".into(), m); }
    // function attribute: its signature and (for local functions) the first constant of its body
    let func_attr = |idx: u32| -> String {
        let sig = func_types.get(idx as usize).and_then(|t| types.get(*t as usize)).cloned().unwrap_or_default();
        if idx < n_imp_funcs { format!("import {} {sig}", imp_func_names[idx as usize]) } else {
            let b = &bodies[(idx - n_imp_funcs) as usize].0;
            format!("{} {}", sig, b.iter().find(|o| o.starts_with("I32Const")).cloned().unwrap_or_default())
        }
    };
    let func_name_of = |idx: u32| -> String { names.iter().find(|n| n.0 == "func" && n.1 == idx).map(|n| n.3.clone()).unwrap_or(format!("#{idx}")) };
    for (kind, idx, sub, name) in &names {
        // a name for an entity that does not exist (tools are known to leave such entries behind) is attached to nothing
        let n_of = |k: &str| -> usize { match k { "func" | "local" => func_types.len(), "type" => types.len(), "table" => tables.len(), "memory" => mems.len(),
            "global" => globals.len(), "elem" => elems.len(), "data" => datas.len(), _ => usize::MAX } };
        if (*idx as usize) >= n_of(kind.as_str()) { continue; }
        let attr = match kind.as_str() {
            "func" => func_attr(*idx),
            "type" => types.get(*idx as usize).cloned().unwrap_or("?".into()),
            "table" => tables.get(*idx as usize).cloned().unwrap_or("?".into()),
            "memory" => mems.get(*idx as usize).cloned().unwrap_or("?".into()),
            "global" => globals.get(*idx as usize).cloned().unwrap_or("?".into()),
            "elem" => elems.get(*idx as usize).cloned().unwrap_or("?".into()),
            "data" => datas.get(*idx as usize).cloned().unwrap_or("?".into()),
            "local" => {
                // attribute of a local: parameter position, or the constant the body stores into it
                let l = sub.unwrap();
                let nparams = func_types.get(*idx as usize).and_then(|t| types.get(*t as usize)).map(|s| { let p = s.split("->").next().unwrap(); if p == "[]" { 0 } else { p.matches(',').count() + 1 } }).unwrap_or(0) as u32;
                let who = func_name_of(*idx);
                if l < nparams { format!("{who} param {l}") } else if *idx >= n_imp_funcs {
                    let b = &bodies[(*idx - n_imp_funcs) as usize].0;
                    let mut a = format!("{who} local never set");
                    for w in b.windows(2) {
                        if w[1] == format!("LocalSet {{ local_index: {l} }}") { a = format!("{who} local set to {}", w[0]); }
                    }
                    a
                } else { "?".into() }
            }
            _ => "?".into(),
        };
        let key = if kind == "local" { format!("local:{}:{}", func_name_of(*idx), name) } else { format!("{kind}:{name}") };
        out.insert(key, attr);
    }
    Ok(out)
}

pub const CORPUS: &[(&str, &str)] = &[
    ("all-kinds", r#"(module $themodule
        (type $t0 (func (param i32)))
        (type $t1 (func (param i64 i32) (result i32)))
        (import "e" "f" (func $imported (type $t0)))
        (import "e" "g" (global $ig i32))
        (memory $m0 1) (memory $m1 2)
        (table $tab0 3 funcref) (table $tab1 4 funcref)
        (global $g0 i32 (i32.const 10)) (global $g1 i32 (i32.const 11))
        (func $small (type $t0) (param $p i32) (local $a i32) (local $unused i32) (local $b i32)
            (local.set $a (i32.const 100)) (local.set $b (i32.const 101)) (drop (local.get $p)))
        (func $big (type $t1) (param $x i64) (param $y i32) (result i32) (local $l i32) (local $k i64)
            (local.set $l (i32.const 200)) (local.set $k (i64.const 5)) (drop (local.get $y)) (drop (local.get $x))
            (i32.const 201) (drop) (i32.const 202) (drop) (i32.const 203))
        (elem $e0 func $small) (elem $e1 func $small $big)
        (data $d0 "aa") (data $d1 "bbb")
        (export "small" (func $small)) (export "big" (func $big)) (export "imp" (func $imported))
        (export "m1" (memory $m1)) (export "t1" (table $tab1)) (export "g1" (global $g1)) (export "g0" (global $g0))
        (func $user (export "user") (type $t0) (param $only i32)
            (i32.const 300) (drop)
            (memory.init $m0 $d1 (i32.const 0) (i32.const 0) (i32.const 1)) (data.drop $d0)
            (table.init $tab0 $e1 (i32.const 0) (i32.const 0) (i32.const 1)) (elem.drop $e0)
            (drop (global.get $ig))))"#),
    ("unused-param-names", r#"(module
        (func $f (export "f") (param $used i32) (param $unused i64) (param $also_used i32) (result i32)
            (i32.add (local.get $used) (local.get $also_used))))"#),
    ("locals-declared-against-type-order", r#"(module
        (func $f (export "f") (param $p f32) (local $a i64) (local $b i32) (local $c f64) (local $d i32) (local $e i64)
            (local.set $a (i64.const 1)) (local.set $b (i32.const 2)) (local.set $c (f64.const 3)) (local.set $d (i32.const 4)) (local.set $e (i64.const 5)) (drop (local.get $p)))
        (func $g (export "g") (local $x f32) (local $y i32) (local.set $x (f32.const 6)) (local.set $y (i32.const 7))))"#),
    ("unnamed-dead-entities-before-named-live-ones", r#"(module
        (type (func (param f64 f64 f64)))
        (type $sig (func (param i32) (result i32)))
        (import "e" "dead_import" (func (param i64)))
        (import "e" "live_import" (func $live_import (param i32)))
        (func (param i32) (result i32) (i32.const 999))
        (func $live (export "live") (type $sig) (i32.const 1000) (drop) (call $live_import (local.get 0)) (local.get 0))
        (global i32 (i32.const 5)) (global $gl (export "gl") i32 (i32.const 6))
        (table 7 funcref) (table $tl (export "tl") 8 funcref)
        (memory 3) (memory $ml (export "ml") 4)
        (data "dead-passive-1") (data "dead-passive-2") (data $dl (memory $ml) (i32.const 0) "live-active") (data $dl2 (memory $ml) (i32.const 16) "live-active-2")
        (elem func $live) (elem $el (table $tl) (i32.const 0) func $live $live) (elem $el2 (table $tl) (i32.const 2) func $live))"#),
    ("partial-names", r#"(module
        (func $anon (export "anon") (param i32) (local $only_local i32) (local.set $only_local (i32.const 7)))
        (func $named (export "n") (param $p i32) (drop (local.get $p)) (i32.const 8) (drop) (i32.const 9) (drop)))"#),
    // modules with names of ONE kind only (whether a name section is written at all must not depend on which kind that is)
    ("only-the-module-name", r#"(module $lonely (func (export "f")))"#),
    ("only-a-function-name", r#"(module (func $f (export "f")))"#),
    ("only-a-parameter-name", r#"(module (func (export "f") (param $p i32) (drop (local.get $p))))"#),
    ("only-a-local-name", r#"(module (func (export "f") (local $l i32) (local.set $l (i32.const 1))))"#),
    ("only-a-global-name", r#"(module (global $g (export "g") i32 (i32.const 1)))"#),
    ("only-a-memory-name", r#"(module (memory $m (export "m") 1))"#),
    ("only-a-table-name", r#"(module (table $t (export "t") 1 funcref))"#),
    ("only-a-data-name", r#"(module (memory (export "m") 1) (data $d (i32.const 0) "x"))"#),
    ("only-an-element-name", r#"(module (table (export "t") 1 funcref) (func) (elem $e (i32.const 0) func 0))"#),
    ("only-an-imported-function-name", r#"(module (import "e" "f" (func $imp)) (export "f" (func $imp)))"#),
];

pub fn names(args: &[String]) -> Result<Value> {
    std::panic::set_hook(Box::new(|_| {}));
    let mut failures = vec![];
    let mut checked = 0;
    let mut inputs: Vec<(String, String, Vec<u8>)> = vec![];
    for (name, text) in CORPUS { inputs.push((name.to_string(), text.to_string(), wat::parse_str(text)?)); }
    for (name, wasm) in stray_entry_cases()? { inputs.push((name, "(hand-built name section)".to_string(), wasm)); }
    for (name, text, wasm) in &inputs {
        if !args.is_empty() && !args.iter().any(|a| a == name) { continue; }
        for scenario in ["emit", "gc+emit"] {
            checked += 1;
            let wasm = wasm.clone();
            let w2 = wasm.clone();
            let r = std::panic::catch_unwind(move || -> Result<Option<Value>> {
                let mut config = walrus::ModuleConfig::new();
                config.generate_producers_section(false);
                let mut m = config.parse(&w2)?;
                if scenario == "gc+emit" { walrus::passes::gc::run(&mut m); }
                let out = m.emit_wasm();
                let a = describe(&w2)?;
                let b = describe(&out)?;
                let mut problems = vec![];
                for (k, attr) in &a {
                    match b.get(k) {
                        Some(battr) => { if battr != attr { problems.push(format!("{k}: was attached to [{attr}], is now attached to [{battr}]")); } }
                        None => {
                            // names of locals that are never used may be dropped
                            if k.starts_with("local:") && attr.ends_with("local never set") { continue; }
                            problems.push(format!("{k} (attached to [{attr}]) is missing from the output name section"));
                        }
                    }
                }
                for (k, attr) in &b { if !a.contains_key(k) { problems.push(format!("{k} (attached to [{attr}]) appears only in the output")); } }
                Ok(if problems.is_empty() { None } else { Some(json!(problems)) })
            });
            match r {
                Ok(Ok(None)) => {}
                Ok(Ok(Some(p))) => failures.push(json!({"module": name, "scenario": scenario, "wat": text, "problems": p})),
                Ok(Err(e)) => failures.push(json!({"module": name, "scenario": scenario, "error": format!("{e:#}")})),
                Err(_) => failures.push(json!({"module": name, "scenario": scenario, "what": "panic"})),
            }
        }
    }
    Ok(json!({"violated": !failures.is_empty(), "cases_checked": checked, "failures": failures}))
}


/// name sections with entries for entities that do not exist (out-of-range indices) in one subsection: the names of the OTHER entities,
/// in that subsection and in every later one, must still come through
fn stray_entry_cases() -> Result<Vec<(String, Vec<u8>)>> {
    fn leb(mut n: u32, out: &mut Vec<u8>) { loop { let b = (n & 0x7f) as u8; n >>= 7; if n == 0 { out.push(b); break } else { out.push(b | 0x80) } } }
    fn name_map(entries: &[(u32, &str)]) -> Vec<u8> { let mut v = vec![]; leb(entries.len() as u32, &mut v); for (i, n) in entries { leb(*i, &mut v); leb(n.len() as u32, &mut v); v.extend_from_slice(n.as_bytes()); } v }
    fn sub(id: u8, payload: Vec<u8>) -> Vec<u8> { let mut v = vec![id]; leb(payload.len() as u32, &mut v); v.extend(payload); v }
    let base = wat::parse_str(r#"(module (type (func (param i32))) (memory 1) (table 2 funcref) (global i32 (i32.const 10)) (global i32 (i32.const 11))
        (func (type 0) (local i32) (local.set 1 (i32.const 100)) (drop (local.get 0))) (func (type 0) (i32.const 7) (drop))
        (data (i32.const 0) "ab") (elem (i32.const 0) func 0) (export "f" (func 0)) (export "g" (func 1)) (export "g0" (global 0)) (export "g1" (global 1))
        (export "m" (memory 0)) (export "t" (table 0)))"#)?;
    // (wat writes no name section for a module without identifiers)
    let mut out = vec![];
    let variants: Vec<(&str, Vec<Vec<u8>>)> = vec![
        ("stray-function-in-locals-subsection", vec![
            sub(1, name_map(&[(0, "first"), (1, "second")])),
            sub(2, { let mut v = vec![]; leb(2, &mut v); leb(0, &mut v); v.extend(name_map(&[(0, "param"), (1, "local")])); leb(99, &mut v); v.extend(name_map(&[(0, "nobody")])); v }),
            sub(5, name_map(&[(0, "tab")])), sub(6, name_map(&[(0, "mem")])), sub(7, name_map(&[(0, "glob0"), (1, "glob1")])),
            sub(8, name_map(&[(0, "seg_e")])), sub(9, name_map(&[(0, "seg_d")])) ]),
        ("stray-entries-in-every-map", vec![
            sub(1, name_map(&[(0, "first"), (1, "second"), (50, "nobody")])),
            sub(2, { let mut v = vec![]; leb(1, &mut v); leb(0, &mut v); v.extend(name_map(&[(0, "param"), (1, "local"), (40, "nobody")])); v }),
            sub(5, name_map(&[(0, "tab"), (9, "nobody")])), sub(6, name_map(&[(0, "mem"), (9, "nobody")])), sub(7, name_map(&[(0, "glob0"), (1, "glob1"), (9, "nobody")])),
            sub(8, name_map(&[(0, "seg_e"), (9, "nobody")])), sub(9, name_map(&[(0, "seg_d"), (9, "nobody")])) ]),
    ];
    for (n, subs) in variants {
        let mut payload = vec![];
        leb(4, &mut payload); payload.extend_from_slice(b"name");
        for s in subs { payload.extend(s); }
        let mut m = base.clone();
        m.push(0);
        leb(payload.len() as u32, &mut m);
        m.extend(payload);
        out.push((n.to_string(), m));
    }
    Ok(out)
}
