//! Batteries for custom sections (C12/C08), GC (C06/C07/C02), code offsets (C11) and names (C13).
use anyhow::{Context, Result};
use serde_json::{json, Value};

fn customs_of(wasm: &[u8]) -> Result<Vec<(String, String)>> {
    let mut v = vec![];
    for p in wasmparser::Parser::new(0).parse_all(wasm) {
        if let wasmparser::Payload::CustomSection(c) = p? {
            let n = c.name();
            const DWARF: &[&str] = &[".debug_abbrev", ".debug_addr", ".debug_aranges", ".debug_frame", ".debug_info", ".debug_line", ".debug_line_str",
                ".debug_loc", ".debug_loclists", ".debug_macinfo", ".debug_macro", ".debug_pubnames", ".debug_pubtypes", ".debug_ranges", ".debug_rnglists",
                ".debug_str", ".debug_str_offsets", ".debug_types", ".debug_cu_index", ".debug_tu_index", ".debug_names", ".debug_sup", ".debug_gnu_pubnames", ".debug_gnu_pubtypes"];
            if n == "name" || n == "producers" || DWARF.contains(&n) {
                continue;
            }
            v.push((n.to_string(), crate::ops::hex(c.data())));
        }
    }
    Ok(v)
}

fn module_with_customs(layout: &[(usize, &str, Vec<u8>)]) -> Vec<u8> {
    // sections of a small module, custom sections interleaved at the given positions (0 = before everything)
    use wasm_encoder::*;
    let mut m = Module::new();
    let put = |m: &mut Module, pos: usize| {
        for (p, name, data) in layout {
            if *p == pos {
                m.section(&CustomSection { name: (*name).into(), data: data.as_slice().into() });
            }
        }
    };
    put(&mut m, 0);
    let mut types = TypeSection::new();
    types.function([], []);
    m.section(&types);
    put(&mut m, 1);
    let mut funcs = FunctionSection::new();
    funcs.function(0);
    m.section(&funcs);
    put(&mut m, 2);
    let mut mems = MemorySection::new();
    mems.memory(MemoryType { minimum: 1, maximum: None, memory64: false, shared: false, page_size_log2: None });
    m.section(&mems);
    let mut exports = ExportSection::new();
    exports.export("f", ExportKind::Func, 0);
    m.section(&exports);
    put(&mut m, 3);
    let mut code = CodeSection::new();
    let mut f = Function::new([]);
    f.instruction(&Instruction::End);
    code.function(&f);
    m.section(&code);
    put(&mut m, 4);
    let mut data = DataSection::new();
    data.active(0, &ConstExpr::i32_const(0), [1u8, 2]);
    m.section(&data);
    put(&mut m, 5);
    m.finish()
}

/// `customs`: unknown custom sections x {emit, gc+emit, emit twice, gc+emit twice}
pub fn customs(_args: &[String]) -> Result<Value> {
    std::panic::set_hook(Box::new(|_| {}));
    let payloads: Vec<Vec<u8>> = vec![vec![], vec![0], vec![0xff; 3], (0u8..=255).collect(), b"\x00asm\x01\x00\x00\x00".to_vec()];
    let mut layouts: Vec<Vec<(usize, &str, Vec<u8>)>> = vec![];
    layouts.push(vec![]);
    for pos in 0..=5 {
        layouts.push(vec![(pos, "x", payloads[2].clone())]);
    }
    layouts.push(vec![(0, "a", payloads[0].clone()), (0, "b", payloads[1].clone()), (5, "a", payloads[2].clone())]);
    layouts.push(vec![(1, "same", payloads[1].clone()), (3, "same", payloads[1].clone()), (5, "same", payloads[3].clone())]);
    layouts.push(vec![(2, "", payloads[4].clone()), (4, "nam", payloads[3].clone()), (4, "producer", payloads[0].clone()), (5, "debug_x", payloads[1].clone())]);
    layouts.push(vec![(5, "z", payloads[0].clone()), (5, "y", payloads[0].clone()), (5, "x", payloads[0].clone()), (0, "linking", payloads[3].clone())]);
    layouts.push(vec![(5, ".debugger", payloads[2].clone()), (5, ".debug", payloads[1].clone())]);
    // every DWARF section name (interpreted: not compared) next to near misses of it (not interpreted: must survive, in order)
    const DWARF_NAMES: &[&str] = &[".debug_abbrev", ".debug_addr", ".debug_aranges", ".debug_frame", ".debug_info", ".debug_line", ".debug_line_str",
        ".debug_loc", ".debug_loclists", ".debug_macinfo", ".debug_macro", ".debug_pubnames", ".debug_pubtypes", ".debug_ranges", ".debug_rnglists",
        ".debug_str", ".debug_str_offsets", ".debug_types", ".debug_cu_index", ".debug_tu_index", ".debug_names", ".debug_sup", ".debug_gnu_pubnames", ".debug_gnu_pubtypes"];
    let near: Vec<String> = DWARF_NAMES.iter().flat_map(|n| vec![format!("{n}x"), format!("{n}."), n[1..].to_string(), n.to_uppercase(), format!("{n}.dw"), format!(" {n}")])
        .chain([".debug_", ".debug_x", ".debu", ".debug_st", ".debug_in", ".debug_lin", ".debug_names_x", ".Debug_info"].iter().map(|s| s.to_string()))
        .filter(|n| !DWARF_NAMES.contains(&n.as_str())).collect();
    let near: &'static Vec<String> = Box::leak(Box::new(near));
    for chunk in near.chunks(16) {
        let mut l: Vec<(usize, &str, Vec<u8>)> = vec![];
        for (i, n) in chunk.iter().enumerate() {
            l.push(((i % 6), n.as_str(), vec![i as u8; i % 4]));
            if i % 5 == 0 { l.push((5, DWARF_NAMES[(i * 7 + chunk.len()) % DWARF_NAMES.len()], vec![])); }
        }
        layouts.push(l);
    }
    layouts.push(vec![(1, "big", vec![0xab; 70_000]), (5, "bigger", (0..200_000u32).map(|i| (i % 251) as u8).collect())]);
    layouts.push(vec![(3, "sourceMappingURL", b"\x10http://x/y.map".to_vec()), (5, "target_features", b"\x01+\x0bbulk-memory".to_vec())]);
    // names for which wasmparser has a reader of its own (tool conventions, components, core dumps), with payloads those readers accept and
    // payloads they do not: walrus interprets none of them
    layouts.push(vec![(4, "metadata.code.branch_hint", vec![1, 0, 1, 1, 1, 1]), (5, "linking", vec![2]), (5, "component-name", b"\x00\x04demo".to_vec()),
        (5, "core", b"\x00\x04proc".to_vec()), (5, "core", b"not a core dump".to_vec()), (5, "dylink.0", vec![]), (5, "reloc.CODE", vec![3, 0])]);
    layouts.push(vec![(0, "coremodules", vec![0]), (1, "coreinstances", vec![0]), (2, "corestack", b"\x00\x04main\x00".to_vec()), (3, "component-type", vec![0]),
        (5, "dylink", vec![0, 0, 0, 0, 0]), (5, "external_debug_info", b"\x05a.dbg".to_vec()), (5, "build_id", vec![4, 1, 2, 3, 4]), (5, "metadata.code.trace_inst", vec![0])]);
    let mut failures = vec![];
    let mut checked = 0;
    for l in &layouts {
        let wasm = module_with_customs(l);
        let want = customs_of(&wasm)?;
        for scenario in ["emit", "gc+emit", "emit twice", "gc+emit twice"] {
            checked += 1;
            let w2 = wasm.clone();
            let r = std::panic::catch_unwind(move || -> Result<Vec<Vec<(String, String)>>> {
                let mut config = walrus::ModuleConfig::new();
                config.generate_producers_section(false);
                let mut m = config.parse(&w2)?;
                if scenario.starts_with("gc") {
                    walrus::passes::gc::run(&mut m);
                }
                let mut outs = vec![customs_of(&m.emit_wasm())?];
                if scenario.ends_with("twice") {
                    outs.push(customs_of(&m.emit_wasm())?);
                }
                Ok(outs)
            });
            match r {
                Ok(Ok(outs)) => {
                    for (k, o) in outs.iter().enumerate() {
                        if *o != want {
                            // a known finding: sections whose name merely starts with ".debug" (not a DWARF section name) are
                            // diverted into the DWARF path at parse time and never re-emitted
                            let lost: Vec<&(String, String)> = want.iter().filter(|x| !o.contains(x)).collect();
                            let only_prefix = !lost.is_empty() && lost.iter().all(|(n, _)| n.starts_with(".debug"))
                                && o.iter().all(|x| want.contains(x)) && o.len() + lost.len() == want.len();
                            let mut f = json!({"scenario": scenario, "emit_number": k + 1, "input_customs": want, "output_customs": o, "input_wasm_hex": crate::ops::hex(&wasm)});
                            if only_prefix { f["finding_key"] = json!("C12:non-dwarf-section-with-.debug-prefix-dropped"); }
                            failures.push(f);
                            break;
                        }
                    }
                }
                Ok(Err(e)) => failures.push(json!({"scenario": scenario, "error": format!("{e:#}")})),
                Err(_) => failures.push(json!({"scenario": scenario, "panic": true, "input_wasm_hex": crate::ops::hex(&wasm)})),
            }
        }
    }
    // sections added / replaced through the public API: a typed user section and raw sections mixed; the emitted order is the order
    // in which the module holds them (arena order), whatever their kind
    #[derive(Debug)]
    struct Typed(Vec<u8>);
    impl walrus::CustomSection for Typed { fn name(&self) -> &str { "typed" } fn data(&self, _: &walrus::IdsToIndices) -> std::borrow::Cow<[u8]> { self.0.clone().into() } }
    for variant in 0..3 {
        checked += 1;
        let wasm = module_with_customs(&[(0, "a", vec![1]), (5, "b", vec![2])]);
        let r = std::panic::catch_unwind(move || -> Result<(Vec<(String, String)>, Vec<(String, String)>)> {
            let mut config = walrus::ModuleConfig::new();
            config.generate_producers_section(false);
            let mut m = config.parse(&wasm)?;
            let mut want: Vec<(String, String)> = vec![("a".into(), "01".into()), ("b".into(), "02".into())];
            match variant {
                0 => { m.customs.add(Typed(vec![9, 9])); m.customs.add(walrus::RawCustomSection { name: "c".into(), data: vec![3] }); want.push(("typed".into(), "0909".into())); want.push(("c".into(), "03".into())); }
                1 => { let _ = m.customs.remove_raw("a"); m.customs.add(Typed(vec![7])); m.customs.add(walrus::RawCustomSection { name: "c".into(), data: vec![3] }); want = vec![("b".into(), "02".into()), ("typed".into(), "07".into()), ("c".into(), "03".into())]; }
                _ => { m.customs.add(walrus::RawCustomSection { name: "c".into(), data: vec![3] }); m.customs.add(Typed(vec![])); m.customs.add(walrus::RawCustomSection { name: "c".into(), data: vec![3] }); want.push(("c".into(), "03".into())); want.push(("typed".into(), "".into())); want.push(("c".into(), "03".into())); }
            }
            Ok((customs_of(&m.emit_wasm())?, want))
        });
        match r {
            Ok(Ok((got, want))) => if got != want { failures.push(json!({"scenario": format!("API variant {variant}: typed and raw sections mixed"), "expected_customs": want, "output_customs": got})); },
            Ok(Err(e)) => failures.push(json!({"scenario": format!("API variant {variant}"), "error": format!("{e:#}")})),
            Err(_) => failures.push(json!({"scenario": format!("API variant {variant}"), "panic": true})),
        }
    }
    failures.truncate(8);
    Ok(json!({"violated": !failures.is_empty(), "cases_checked": checked, "failures": failures}))
}

fn last_segment_is_declared(wasm: &[u8]) -> Result<bool> {
    let mut last = None;
    for p in wasmparser::Parser::new(0).parse_all(wasm) {
        if let wasmparser::Payload::ElementSection(s) = p? { for e in s { last = Some(matches!(e?.kind, wasmparser::ElementKind::Declared)); } }
    }
    Ok(last.unwrap_or(false))
}

/// `emit-twice`: repeated emission of the same in-memory module is byte-identical (operator + entity corpus)
pub fn emit_twice(_args: &[String]) -> Result<Value> {
    std::panic::set_hook(Box::new(|_| {}));
    let mut failures = vec![];
    let mut checked = 0;
    let mut inputs: Vec<(String, Vec<u8>)> = vec![];
    for (name, text) in crate::entities::CORPUS {
        if let Ok(w) = wat::parse_str(text) {
            inputs.push((name.to_string(), w));
        }
    }
    inputs.push(("customs".into(), module_with_customs(&[(0, "a", vec![1]), (5, "b", vec![2, 3])])));
    // several equal-sized functions whose used locals have four different types (locals layout must not depend on a hash order)
    let mut t = String::from("(module ");
    for i in 0..8 {
        t.push_str(&format!("(func (export \"f{i}\") (param i32) (local i32 i64 f32 f64 i64 f32 i32 f64 v128 funcref externref) \
            (local.set 1 (i32.const {i})) (local.set 2 (i64.const 2)) (local.set 3 (f32.const 3)) (local.set 4 (f64.const 4)) (local.set 5 (i64.const 5)) \
            (local.set 6 (f32.const 6)) (local.set 7 (i32.const 7)) (local.set 8 (f64.const 8)) (local.set 9 (v128.const i32x4 0 0 0 0)) (local.set 10 (ref.null func)) (local.set 11 (ref.null extern)))"));
    }
    t.push(')');
    inputs.push(("multi-type-locals".into(), wat::parse_str(&t)?));
    // many types / many named entities of every kind (sorted emission of types and name maps)
    let mut t = String::from("(module ");
    for i in 0..12 { t.push_str(&format!("(type $t{i} (func (param {}) (result {})))", ["i32", "i64", "f32", "f64"][i % 4], ["i32 i32", "i64", "f32 f64", ""][(i / 4) % 4])); }
    for i in 0..6 { t.push_str(&format!("(global $g{i} i32 (i32.const {i})) (memory $m{i} 1) (table $tb{i} 1 funcref) (data $d{i} \"x\") (elem $e{i} func)")); }
    for i in 0..12 { t.push_str(&format!("(func $f{i} (type $t{i}) (local $l i32) unreachable)")); }
    for i in 0..12 { t.push_str(&format!("(export \"f{i}\" (func $f{i}))")); }
    t.push(')');
    inputs.push(("many-names".into(), wat::parse_str(&t)?));
    // the gc and name corpora as well (every entity kind, dead entities, name maps)
    for (name, text) in GC_CORPUS {
        if let Ok(w) = wat::parse_str(text) { inputs.push((format!("gc:{name}"), w)); }
    }
    for (name, text) in crate::names::CORPUS {
        if let Ok(w) = wat::parse_str(text) { inputs.push((format!("names:{name}"), w)); }
    }
    // k imported functions in front of n local functions of equal size (emission order among ties must not depend on numeric ids)
    for k in [0usize, 1, 2, 3, 5, 8, 13, 16, 17, 31, 33] {
        for n in [2usize, 6, 17, 40] {
            let mut t = String::from("(module ");
            for i in 0..k { t.push_str(&format!("(import \"env\" \"i{i}\" (func (param i32)))")); }
            for i in 0..n { t.push_str(&format!("(func (export \"f{i}\") (result i32) (i32.const {i}))")); }
            // ... and a few ties among bigger ones
            for i in 0..(n / 2) { t.push_str(&format!("(func (export \"g{i}\") (result i32) (i32.add (i32.const {i}) (i32.const 1)))")); }
            t.push(')');
            inputs.push((format!("ties-{k}-imports-{n}-functions"), wat::parse_str(&t)?));
        }
    }
    // element segments of every kind naming functions against their emitted order, with repeats
    for (name, text) in [
        ("declared-small-before-big", r#"(module (func $small) (func $big (drop (i32.const 1)) (drop (i32.const 2))) (elem declare func $small $big)
            (func (export "r") (result funcref) (ref.func $small)) (func (export "s") (result funcref) (ref.func $big)))"#),
        ("declared-with-repeats", r#"(module (func $small) (func $big (drop (i32.const 1)) (drop (i32.const 2))) (elem declare func $big $small $big $small)
            (func (export "r") (result funcref) (ref.func $small)) (func (export "s") (result funcref) (ref.func $big)))"#),
        ("active-and-passive-against-order", r#"(module (table 8 funcref) (func $a) (func $b (nop)) (func $c (nop) (nop)) (func $d (nop) (nop) (nop))
            (elem (i32.const 0) func $a $d $b $a $c) (elem func $c $a $a $d) (elem (i32.const 5) funcref (ref.func $b) (ref.null func) (ref.func $a))
            (func (export "u") (table.init 1 (i32.const 0) (i32.const 0) (i32.const 2))))"#),
        ("data-against-order", r#"(module (memory 1) (data (i32.const 8) "bb") (data "p") (data (i32.const 0) "aaaa") (data "q")
            (func (export "u") (memory.init 3 (i32.const 0) (i32.const 0) (i32.const 1)) (memory.init 1 (i32.const 0) (i32.const 0) (i32.const 1))))"#),
    ] {
        inputs.push((name.to_string(), wat::parse_str(text)?));
    }
    // producers sections with several fields and values (the default configuration keeps them and records walrus): the field order must not
    // depend on a hash seed, neither between two Module values nor across the round trip
    for (k, fields) in [
        vec![("language", vec![("Rust", "1.70"), ("C", "11")]), ("sdk", vec![("emsdk", "3")]), ("processed-by", vec![("clang", "15"), ("rustc", "1.0")])],
        vec![("processed-by", vec![("walrus", "0.0.1")]), ("language", vec![("C", "11")]), ("sdk", vec![("a", "1"), ("b", "2"), ("c", "3")]), ("zz-custom", vec![("x", "y")]), ("aa-custom", vec![("p", "q")])],
        vec![("sdk", vec![("emsdk", "3")]), ("language", vec![("Zig", "0.11")])],
    ].into_iter().enumerate() {
        let mut wasm = wat::parse_str(r#"(module (memory 1) (func (export "f") (result i32) (i32.load (i32.const 0))))"#)?;
        let mut p = wasm_encoder::ProducersSection::new();
        for (fname, vals) in &fields {
            let mut pf = wasm_encoder::ProducersField::new();
            for (a, b) in vals { pf.value(a, b); }
            p.field(fname, &pf);
        }
        wasm_encoder::Section::append_to(&p, &mut wasm);
        inputs.push((format!("producers-{k}"), wasm));
    }
    for (name, wasm) in inputs {
        checked += 1;
        let w2 = wasm.clone();
        let r = std::panic::catch_unwind(move || -> Result<Option<String>> {
            let mut m = walrus::ModuleConfig::new().parse(&w2)?;
            let a = m.emit_wasm();
            let b = m.emit_wasm();
            let c = m.emit_wasm();
            if a != b || b != c {
                return Ok(Some(format!("emit #1: {} bytes, #2: {} bytes, #3: {} bytes", a.len(), b.len(), c.len())));
            }
            // other Module values parsed from the same bytes emit the same bytes
            for _ in 0..6 {
                let other = walrus::ModuleConfig::new().parse(&w2)?.emit_wasm();
                if other != a { return Ok(Some(format!("two Module values parsed from the same bytes emit different bytes ({} vs {} bytes)", a.len(), other.len()))); }
            }
            // fixpoint: parse(emit(m)) emits the same bytes
            let mut m2 = walrus::ModuleConfig::new().parse(&a)?;
            let d = m2.emit_wasm();
            if d != a {
                return Ok(Some(format!("re-parsing walrus's output and emitting again changes it ({} vs {} bytes)", a.len(), d.len())));
            }
            Ok(None)
        });
        match r {
            Ok(Ok(None)) => {}
            Ok(Ok(Some(w))) => failures.push(json!({"module": name, "what": w, "input_wasm_hex": crate::ops::hex(&wasm)})),
            Ok(Err(e)) => failures.push(json!({"module": name, "error": format!("{e:#}")})),
            Err(_) => failures.push(json!({"module": name, "panic": true})),
        }
    }
    // modules edited through the public API: entities added in an order different from their final index order
    for case in ["import-after-locals"] {
        checked += 1;
        let r = std::panic::catch_unwind(|| -> Result<Option<String>> {
            // (producers off on both sides: an API-built module records no producer, a parsed one does)
            let mut cfg = walrus::ModuleConfig::new();
            cfg.generate_producers_section(false);
            let mut m = walrus::Module::with_config(cfg.clone());
            for i in 0..3 {
                let g = m.globals.add_local(walrus::ValType::I32, false, false, walrus::ConstExpr::Value(walrus::ir::Value::I32(i)));
                m.globals.get_mut(g).name = Some(format!("local{i}"));
                m.exports.add(&format!("g{i}"), g);
                let mem = m.memories.add_local(false, false, 1, None, None);
                m.memories.get_mut(mem).name = Some(format!("mem{i}"));
                m.exports.add(&format!("m{i}"), mem);
                let t = m.tables.add_local(false, 1, None, walrus::RefType::Funcref);
                m.tables.get_mut(t).name = Some(format!("tab{i}"));
                m.exports.add(&format!("t{i}"), t);
            }
            let (ig, _) = m.add_import_global("env", "late", walrus::ValType::I32, false, false);
            m.globals.get_mut(ig).name = Some("late_import".into());
            m.exports.add("late", ig);
            let (im, _) = m.add_import_memory("env", "latemem", false, false, 1, None, None);
            m.memories.get_mut(im).name = Some("late_mem".into());
            m.exports.add("latemem", im);
            let (it, _) = m.add_import_table("env", "latetab", false, 1, None, walrus::RefType::Funcref);
            m.tables.get_mut(it).name = Some("late_tab".into());
            m.exports.add("latetab", it);
            let a = m.emit_wasm();
            let b = m.emit_wasm();
            if a != b { return Ok(Some("two emits of the API-built module differ".into())); }
            let d = cfg.parse(&a)?.emit_wasm();
            if d != a { return Ok(Some(format!("re-parsing walrus's output of an API-built module and emitting again changes it ({} vs {} bytes)", a.len(), d.len()))); }
            Ok(None)
        });
        match r {
            Ok(Ok(None)) => {}
            Ok(Ok(Some(w))) => failures.push(json!({"module": case, "what": w})),
            Ok(Err(e)) => failures.push(json!({"module": case, "error": format!("{e:#}")})),
            Err(_) => failures.push(json!({"module": case, "panic": true})),
        }
    }
    // edits BETWEEN emits: what a later emit writes depends on the module as it is then, not on anything remembered from an earlier emit
    for case in ["body-edited-after-an-emit", "debug-named-section-added-through-the-api"] {
        checked += 1;
        let r = std::panic::catch_unwind(|| -> Result<Option<String>> {
            let mut cfg = walrus::ModuleConfig::new();
            cfg.generate_producers_section(false);
            let wasm = wat::parse_str(r#"(module (func $small (export "small") (nop)) (func $mid (export "mid") (drop (i32.const 1)) (drop (i32.const 2)))
                (func $big (export "big") (drop (i32.const 1)) (drop (i32.const 2)) (drop (i32.const 3)) (drop (i32.const 4))))"#)?;
            let mut m = cfg.parse(&wasm)?;
            let first = m.emit_wasm();
            if case == "body-edited-after-an-emit" {
                // make the smallest function the largest, through block_mut (not through the builder)
                let small = m.exports.get_func("small")?;
                let f = m.funcs.get_mut(small).kind.unwrap_local_mut();
                let entry = f.entry_block();
                for k in 0..12 {
                    f.block_mut(entry).instrs.push((walrus::ir::Instr::Const(walrus::ir::Const { value: walrus::ir::Value::I32(k) }), Default::default()));
                    f.block_mut(entry).instrs.push((walrus::ir::Instr::Drop(walrus::ir::Drop {}), Default::default()));
                }
            } else {
                m.customs.add(walrus::RawCustomSection { name: ".debug_custom".into(), data: vec![1, 2, 3] });
                m.customs.add(walrus::RawCustomSection { name: ".debug_str".into(), data: vec![b'a', 0] });
                m.customs.add(walrus::RawCustomSection { name: ".debug_line.dwo".into(), data: vec![0; 4] });
                m.customs.add(walrus::RawCustomSection { name: "plain".into(), data: vec![4] });
            }
            let a = m.emit_wasm();
            let b = m.emit_wasm();
            if a != b { return Ok(Some("two emits of the edited module differ".into())); }
            if case == "body-edited-after-an-emit" && a == first { return Ok(Some("the edit did not reach the output".into())); }
            let d = cfg.parse(&a)?.emit_wasm();
            if d != a { return Ok(Some(format!("after an edit that follows an emit, re-parsing the output and emitting again changes it ({} vs {} bytes)", a.len(), d.len()))); }
            Ok(None)
        });
        match r {
            Ok(Ok(None)) => {}
            Ok(Ok(Some(w))) => failures.push(json!({"module": case, "what": w})),
            Ok(Err(e)) => failures.push(json!({"module": case, "error": format!("{e:#}")})),
            Err(_) => failures.push(json!({"module": case, "panic": true})),
        }
    }
    failures.truncate(8);
    Ok(json!({"violated": !failures.is_empty(), "modules_checked": checked, "failures": failures}))
}

pub const GC_F17: &[(&str, &str)] = &[
    // known finding F17: a function named by a live `ref.func` whose only declaration (an element segment, or a funcref global initialiser)
    // is itself unreachable: gc removes the declaration and the output no longer validates ("undeclared function reference")
    ("undeclared-ref-func-after-gc-active-segment", r#"(module (table $t 1 funcref) (func $f) (elem (table $t) (i32.const 0) func $f)
        (func (export "g") (result funcref) (ref.func $f)))"#),
    ("undeclared-ref-func-after-gc-passive-segment", r#"(module (func $f) (elem $p func $f) (func (export "g") (result funcref) (ref.func $f)))"#),
    ("undeclared-ref-func-after-gc-global", r#"(module (func $f) (global $unused funcref (ref.func $f)) (func (export "g") (result funcref) (ref.func $f)))"#),
    // ... the same when the function is kept for another reason that is NOT a declaration: it is the start function (the start section
    // does not declare), it is called, it sits in a kept table through an expression of another kept segment
    ("undeclared-ref-func-of-the-start-function", r#"(module (table $t 1 funcref) (func $s) (start $s) (elem (table $t) (i32.const 0) func $s)
        (func (export "g") (result funcref) (ref.func $s)))"#),
    ("undeclared-ref-func-of-the-start-function-global", r#"(module (func $s) (start $s) (global $unused funcref (ref.func $s)) (func (export "g") (result funcref) (ref.func $s)))"#),
    ("undeclared-ref-func-of-a-called-function", r#"(module (func $f) (elem $p func $f) (func (export "g") (result funcref) (call $f) (ref.func $f)))"#),
    ("undeclared-ref-func-in-a-nested-block-of-a-called-function", r#"(module (func $f) (elem $p func $f) (func $h (result funcref) (block (result funcref) (ref.func $f)))
        (func (export "g") (drop (call $h))))"#),
    ("ref-func-of-an-imported-function", r#"(module (import "e" "i" (func $i)) (elem $p func $i) (func (export "g") (result funcref) (ref.func $i)))"#),
];

pub const GC_CORPUS: &[(&str, &str)] = &[
    ("elem-externref-global", r#"(module
        (import "e" "x" (global $x externref))
        (import "e" "y" (global $g externref))
        (table $t 2 externref)
        (elem (table $t) (i32.const 0) externref (global.get $x) (global.get $g))
        (func (export "f") (drop (table.get $t (i32.const 0)))))"#),
    ("elem-funcref-exprs", r#"(module
        (import "e" "g" (global $g funcref))
        (table $t 3 funcref) (func $a) (func $unused)
        (elem (table $t) (i32.const 0) funcref (ref.func $a) (global.get $g) (ref.null func))
        (func (export "f") (call_indirect $t (i32.const 0))))"#),
    ("passive-elem-externref-used", r#"(module
        (import "e" "x" (global $x externref))
        (table $t 2 externref)
        (elem $p externref (global.get $x))
        (func (export "f") (table.init $t $p (i32.const 0) (i32.const 0) (i32.const 1))))"#),
    ("declared-elem", r#"(module (func $a) (func $b) (elem declare func $a) (func (export "f") (drop (ref.func $a))))"#),
    ("data-offset-global", r#"(module (import "e" "base" (global $b i32)) (global $unused i32 (i32.const 1)) (memory 1) (data (global.get $b) "x") (func (export "f")))"#),
    ("global-init-chain", r#"(module (import "e" "a" (global $a i32)) (global $b i32 (global.get $a)) (global $c i32 (i32.const 2)) (func $h) (global $d funcref (ref.func $h))
        (func (export "f") (result i32) (drop (global.get $d)) (global.get $b)))"#),
    ("unused-everything", r#"(module (type $u (func (param f64))) (import "e" "uf" (func $uf)) (import "e" "ug" (global $ug i32)) (import "e" "um" (memory $um 1)) (import "e" "ut" (table $ut 1 funcref))
        (func $dead (call $uf)) (global $dg i32 (global.get $ug)) (memory $dm 1) (table $dt 1 funcref) (elem $de func $dead) (data $dd "dead")
        (func (export "f")))"#),
    ("start-keeps", r#"(module (func $helper) (func $s (call $helper)) (start $s) (func (export "f")))"#),
    ("table-keeps-active-elems", r#"(module (table $t 2 funcref) (func $a) (func $b) (elem (table $t) (i32.const 0) func $a $b) (export "t" (table $t)))"#),
    ("memory-keeps-active-data", r#"(module (import "e" "off" (global $off i32)) (memory $m 1) (data (memory $m) (global.get $off) "abc") (export "m" (memory $m)))"#),
    ("call-indirect-type", r#"(module (type $sig (func (param i32) (result i32))) (type $unused (func (param f32))) (table $t 1 funcref)
        (func (export "f") (param i32) (result i32) (call_indirect $t (type $sig) (local.get 0) (i32.const 0))))"#),
    ("multi-memory-copy", r#"(module (memory $a 1) (memory $b 1) (memory $c 1) (func (export "f") (memory.copy $a $b (i32.const 0) (i32.const 0) (i32.const 1))))"#),
    ("table-copy-init", r#"(module (table $a 1 funcref) (table $b 1 funcref) (table $c 1 funcref) (func $x) (elem $e func $x)
        (func (export "f") (table.copy $a $b (i32.const 0) (i32.const 0) (i32.const 1)) (table.init $c $e (i32.const 0) (i32.const 0) (i32.const 1)) (elem.drop $e)))"#),
    ("block-type-keeps-type", r#"(module (type $bt (func (param i32) (result i32 i32))) (func (export "f") (result i32 i32) (i32.const 1) (block (type $bt) (i32.const 2))))"#),
    ("side-module-imported-table-segment", r#"(module (import "env" "__indirect_function_table" (table $t 4 funcref)) (import "env" "__table_base" (global $base i32))
        (import "env" "unused" (func $unused_import))
        (func $only_in_segment_a) (func $only_in_segment_b (nop))
        (elem (table $t) (global.get $base) func $only_in_segment_a $only_in_segment_b)
        (func (export "f")))"#),
    ("expr-items-global-only-in-segment", r#"(module (import "env" "eg" (global $eg externref)) (import "env" "other" (global $other externref))
        (table $t (export "t") 2 externref) (elem (table $t) (i32.const 0) externref (global.get $eg))
        (func (export "f")))"#),
    ("unused-table-with-segment", r#"(module (table $dead 2 funcref) (func $x) (elem (table $dead) (i32.const 0) func $x) (func (export "f")))"#),
    ("unused-memory-with-data-kept", r#"(module (memory $m 1) (data (i32.const 0) "x") (func (export "f")))"#),
    ("global-ref-func-only", r#"(module (func $only_here) (global $g funcref (ref.func $only_here)) (func (export "f") (drop (global.get $g))))"#),
    ("table-copy-src-only", r#"(module (table $dst 1 funcref) (table $src 1 funcref) (func $in_src) (elem (table $src) (i32.const 0) func $in_src)
        (func (export "f") (table.copy $dst $src (i32.const 0) (i32.const 0) (i32.const 1))))"#),
    // sequences the parser created inside unreachable code and never linked into the body: what only they name is not reachable
    ("detached-block-after-br", r#"(module (func $only_dead (result i32) i32.const 1) (global $gd (mut i32) (i32.const 0)) (memory $m 1) (data $dd "x")
        (func (export "f") (block (br 0) (block (drop (call $only_dead)) (global.set $gd (i32.const 1)) (data.drop $dd)))))"#),
    ("detached-if-after-return", r#"(module (type $only (func (param f64))) (table $t 1 funcref) (func $g) (elem $e func $g)
        (func (export "f") (return) (if (i32.const 1) (then (call_indirect $t (type $only) (f64.const 0) (i32.const 0))) (else (elem.drop $e)))))"#),
    ("detached-loop-after-unreachable", r#"(module (func $only_dead2) (func (export "f") (result i32) (unreachable) (loop (call $only_dead2) (br 0)) (i32.const 0)))"#),
    ("declared-only-ref-func", r#"(module (func $d) (elem declare func $d) (func (export "f") (result funcref) (ref.func $d)))"#),
    ("memory-copy-src-only", r#"(module (memory $a 1) (memory $b 1) (data (memory $b) (i32.const 0) "q") (func (export "f") (memory.copy $a $b (i32.const 0) (i32.const 0) (i32.const 1))))"#),
    ("call-indirect-only-table-and-type", r#"(module (type $s (func (param i64))) (table $t 1 funcref) (func $callee (type $s)) (elem (table $t) (i32.const 0) func $callee)
        (func (export "f") (call_indirect $t (type $s) (i64.const 1) (i32.const 0))))"#),
    ("data-drop-memory-init", r#"(module (memory $m 1) (data $p "abc") (data $q "zzz") (func (export "f") (memory.init $m $p (i32.const 0) (i32.const 0) (i32.const 3)) (data.drop $p)))"#),
];

fn export_names(wasm: &[u8]) -> Result<Vec<String>> {
    let mut v = vec![];
    for p in wasmparser::Parser::new(0).parse_all(wasm) {
        if let wasmparser::Payload::ExportSection(s) = p? {
            for e in s { v.push(e?.name.to_string()); }
        }
    }
    Ok(v)
}

fn validates(wasm: &[u8]) -> std::result::Result<(), String> {
    let mut f = wasmparser::WasmFeatures::empty();
    use wasmparser::WasmFeatures as F;
    for x in [F::FLOATS, F::MUTABLE_GLOBAL, F::SATURATING_FLOAT_TO_INT, F::SIGN_EXTENSION, F::MULTI_VALUE, F::REFERENCE_TYPES,
              F::BULK_MEMORY, F::SIMD, F::RELAXED_SIMD, F::TAIL_CALL, F::MULTI_MEMORY, F::MEMORY64, F::THREADS] { f.insert(x); }
    wasmparser::Validator::new_with_features(f).validate_all(wasm).map(|_| ()).map_err(|e| format!("{e}"))
}

/// `gc`: gc + emit never panics, validates, keeps exports, is idempotent
pub fn gc(args: &[String]) -> Result<Value> {
    std::panic::set_hook(Box::new(|_| {}));
    let mut failures = vec![];
    let mut checked = 0;
    let mut corpus: Vec<(String, String)> = GC_CORPUS.iter().map(|(a, b)| (a.to_string(), b.to_string())).collect();
    for (n, t) in GC_F17 { corpus.push((n.to_string(), t.to_string())); }
    for (n, t) in crate::entities::CORPUS { corpus.push((format!("entities/{n}"), t.to_string())); }
    // `gc random N [SEED]`: N generated modules (random reference graphs over every entity kind) instead of the hand-written corpus
    let random = args.first().map(|a| a == "random").unwrap_or(false);
    if random {
        let n: usize = args.get(1).and_then(|s| s.parse().ok()).unwrap_or(300);
        let seed: u64 = args.get(2).and_then(|s| s.parse().ok()).unwrap_or(1);
        corpus = random_graph_modules(n, seed);
    }
    for (name, text) in corpus {
        if !random && !args.is_empty() && !args.iter().any(|a| *a == name) { continue; }
        checked += 1;
        let wasm = wat::parse_str(&text).with_context(|| format!("corpus module {name}"))?;
        let w2 = wasm.clone();
        let r = std::panic::catch_unwind(move || -> Result<Option<String>> {
            let mut config = walrus::ModuleConfig::new();
            config.generate_producers_section(false);
            let mut m = config.parse(&w2)?;
            walrus::passes::gc::run(&mut m);
            let out = m.emit_wasm();
            if let Err(e) = validates(&out) { return Ok(Some(format!("output of gc+emit does not validate: {e}"))); }
            if export_names(&out)? != export_names(&w2)? { return Ok(Some("exports changed".into())); }
            // precision (C07): nothing unreachable from the roots may remain
            let dead = crate::reach::unreachable(&out)?;
            if !dead.is_empty() { return Ok(Some(format!("after gc the module still contains entities unreachable from the roots: {:?}", dead))); }
            // soundness + precision together (C06/C07): what is kept is exactly what an independent analysis of the INPUT finds
            // reachable (one extra memory tolerated when data segments are kept and no memory is reachable)
            let (_, want) = crate::reach::counts(&w2)?;
            let (mut have, _) = crate::reach::counts(&out)?;
            if want[2] == 0 && have[2] == 1 && have[4] > 0 { have[2] = 0; }
            // one declared element segment may be ADDED: it re-declares functions that a kept body names by `ref.func` and whose only
            // declaration (a segment or global that was itself unreachable) has been removed (repair of F17)
            if have[5] == want[5] + 1 && last_segment_is_declared(&out)? { have[5] -= 1; }
            if want != have { return Ok(Some(format!("kept entities (funcs, tables, memories, globals, datas, elems) = {:?}, reachable in the input = {:?}", have, want))); }
            walrus::passes::gc::run(&mut m);
            let out2 = m.emit_wasm();
            if crate::entities::canonical(&out2)? != crate::entities::canonical(&out)? { return Ok(Some("a second gc run changed the module".into())); }
            // gc of the re-parsed output removes nothing more
            let mut m3 = config.parse(&out)?;
            walrus::passes::gc::run(&mut m3);
            let out3 = m3.emit_wasm();
            if crate::entities::canonical(&out3)? != crate::entities::canonical(&out)? { return Ok(Some("gc of the re-parsed gc output still removes something".into())); }
            Ok(None)
        });
        match r {
            Ok(Ok(None)) => {}
            Ok(Ok(Some(w))) => {
                let mut f = json!({"module": name, "wat": text, "what": w});
                if name.starts_with("undeclared-ref-func-after-gc") && w.contains("undeclared function reference") { f["finding_key"] = json!("C06:ref-func-left-undeclared-after-gc"); }
                failures.push(f)
            }
            Ok(Err(e)) => failures.push(json!({"module": name, "wat": text, "error": format!("{e:#}")})),
            Err(_) => failures.push(json!({"module": name, "wat": text, "what": "panic during gc / emit"})),
        }
    }
    failures.truncate(8);
    Ok(json!({"violated": !failures.is_empty(), "modules_checked": checked, "failures": failures}))
}


/// modules whose entities refer to each other at random: every entity kind, every kind of reference (calls, global reads / writes,
/// ref.func in bodies, global initialisers and element items, table / memory operands, segment operands, active segments on local and
/// imported tables, declared segments), a random set of exports and an optional start function
pub fn random_graph_modules(n: usize, seed: u64) -> Vec<(String, String)> {
    let mut st = seed.wrapping_mul(0x9e37_79b9_7f4a_7c15) | 1;
    let mut rnd = move |k: usize| -> usize { st ^= st << 13; st ^= st >> 7; st ^= st << 17; if k == 0 { 0 } else { (st % k as u64) as usize } };
    let mut out = vec![];
    let mut tries = 0;
    while out.len() < n && tries < n * 20 {
        tries += 1;
        let (nif, nf) = (rnd(3), 1 + rnd(6));
        let (nig, ng) = (rnd(2), rnd(5));
        let (nit, nt) = (rnd(2), rnd(3));
        let nm = rnd(3);
        let (nd, ne) = (rnd(5), rnd(5));
        let mut t = String::from("(module (type $v (func))\n");
        for i in 0..nif { t.push_str(&format!(" (import \"e\" \"f{i}\" (func $if{i}))\n")); }
        for i in 0..nig { t.push_str(&format!(" (import \"e\" \"g{i}\" (global $ig{i} i32))\n")); }
        for i in 0..nit { t.push_str(&format!(" (import \"e\" \"t{i}\" (table $it{i} 4 funcref))\n")); }
        let funcs: Vec<String> = (0..nif).map(|i| format!("$if{i}")).chain((0..nf).map(|i| format!("$f{i}"))).collect();
        let tables: Vec<String> = (0..nit).map(|i| format!("$it{i}")).chain((0..nt).map(|i| format!("$t{i}"))).collect();
        let mems: Vec<String> = (0..nm).map(|i| format!("$m{i}")).collect();
        let mut ref_funcd: Vec<String> = vec![];
        // functions that some segment / funcref global mentions (a `ref.func` of such a function needs no further declaration in the input;
        // gc may remove that very segment / global and must then keep the function declared)
        let mut mentioned: Vec<String> = vec![];
        // globals: mutable i32 (const or imported-global initialiser) or funcref (ref.func initialiser)
        let mut globals_i32: Vec<String> = vec![];
        let mut gl = String::new();
        for i in 0..ng {
            match rnd(3) {
                0 => { let f = funcs[rnd(funcs.len())].clone(); gl.push_str(&format!(" (global $g{i} funcref (ref.func {f}))\n")); mentioned.push(f); }
                1 if nig > 0 => { gl.push_str(&format!(" (global $g{i} (mut i32) (global.get $ig{}))\n", rnd(nig))); globals_i32.push(format!("$g{i}")); }
                _ => { gl.push_str(&format!(" (global $g{i} (mut i32) (i32.const {i}))\n")); globals_i32.push(format!("$g{i}")); }
            }
        }
        for i in 0..nt { t.push_str(&format!(" (table $t{i} 4 funcref)\n")); }
        for i in 0..nm { t.push_str(&format!(" (memory $m{i} 1)\n")); }
        t.push_str(&gl);
        let offset = |rnd: &mut dyn FnMut(usize) -> usize| -> String { if nig > 0 && rnd(3) == 0 { format!("(global.get $ig{})", rnd(nig)) } else { format!("(i32.const {})", rnd(3)) } };
        let mut datas: Vec<String> = vec![];
        for i in 0..nd {
            if !mems.is_empty() && rnd(2) == 0 { let m = mems[rnd(mems.len())].clone(); let o = offset(&mut rnd); t.push_str(&format!(" (data $d{i} (memory {m}) (offset {o}) \"x\")\n")); }
            else { t.push_str(&format!(" (data $d{i} \"y\")\n")); }
            datas.push(format!("$d{i}"));
        }
        let mut elems: Vec<String> = vec![];
        for i in 0..ne {
            let k = 1 + rnd(2);
            let items_f: Vec<String> = (0..k).map(|_| funcs[rnd(funcs.len())].clone()).collect();
            mentioned.extend(items_f.iter().cloned());
            let as_exprs = rnd(2) == 0;
            let items = if as_exprs { format!("funcref {}", items_f.iter().map(|f| if rnd(4) == 0 { "(ref.null func)".to_string() } else { format!("(ref.func {f})") }).collect::<Vec<_>>().join(" ")) } else { format!("func {}", items_f.join(" ")) };
            match rnd(3) {
                0 if !tables.is_empty() => { let tb = tables[rnd(tables.len())].clone(); let o = offset(&mut rnd); t.push_str(&format!(" (elem $e{i} (table {tb}) (offset {o}) {items})\n")); }
                1 => t.push_str(&format!(" (elem $e{i} declare {items})\n")),
                _ => t.push_str(&format!(" (elem $e{i} {items})\n")),
            }
            elems.push(format!("$e{i}"));
        }
        for i in 0..nf {
            t.push_str(&format!(" (func $f{i}"));
            for _ in 0..rnd(4) {
                match rnd(12) {
                    0 => t.push_str(&format!(" (call {})", funcs[rnd(funcs.len())])),
                    1 if !globals_i32.is_empty() => t.push_str(&format!(" (drop (global.get {}))", globals_i32[rnd(globals_i32.len())])),
                    2 if !globals_i32.is_empty() => t.push_str(&format!(" (global.set {} (i32.const 1))", globals_i32[rnd(globals_i32.len())])),
                    3 if nig > 0 => t.push_str(&format!(" (drop (global.get $ig{}))", rnd(nig))),
                    4 if !tables.is_empty() => t.push_str(&format!(" (drop (table.size {}))", tables[rnd(tables.len())])),
                    5 if !tables.is_empty() => t.push_str(&format!(" (call_indirect {} (type $v) (i32.const 0))", tables[rnd(tables.len())])),
                    6 if !mems.is_empty() => t.push_str(&format!(" (drop (i32.load {} (i32.const 0)))", mems[rnd(mems.len())])),
                    7 if !mems.is_empty() && !datas.is_empty() => t.push_str(&format!(" (memory.init {} {} (i32.const 0) (i32.const 0) (i32.const 0))", mems[rnd(mems.len())], datas[rnd(datas.len())])),
                    8 if !datas.is_empty() => t.push_str(&format!(" (data.drop {})", datas[rnd(datas.len())])),
                    9 if !tables.is_empty() && !elems.is_empty() => t.push_str(&format!(" (table.init {} {} (i32.const 0) (i32.const 0) (i32.const 0))", tables[rnd(tables.len())], elems[rnd(elems.len())])),
                    10 if !elems.is_empty() => t.push_str(&format!(" (elem.drop {})", elems[rnd(elems.len())])),
                    11 => { let f = funcs[rnd(funcs.len())].clone(); t.push_str(&format!(" (drop (ref.func {f}))")); ref_funcd.push(f); }
                    _ => t.push_str(" (nop)"),
                }
            }
            t.push_str(")\n");
        }
        ref_funcd.retain(|f| !mentioned.contains(f));
        if !ref_funcd.is_empty() { t.push_str(&format!(" (elem declare func {})\n", ref_funcd.join(" "))); }
        // roots
        let mut any = false;
        for i in 0..nf { if rnd(3) == 0 { t.push_str(&format!(" (export \"f{i}\" (func $f{i}))\n")); any = true; } }
        for i in 0..ng { if rnd(4) == 0 { t.push_str(&format!(" (export \"g{i}\" (global $g{i}))\n")); any = true; } }
        for i in 0..nt { if rnd(4) == 0 { t.push_str(&format!(" (export \"t{i}\" (table $t{i}))\n")); any = true; } }
        for i in 0..nm { if rnd(4) == 0 { t.push_str(&format!(" (export \"m{i}\" (memory $m{i}))\n")); any = true; } }
        if rnd(4) == 0 { t.push_str(&format!(" (start $f{})\n", rnd(nf))); any = true; }
        if !any { t.push_str(" (export \"f0\" (func $f0))\n"); }
        t.push(')');
        let ok = wat::parse_str(&t).ok().map(|w| validates(&w).is_ok()).unwrap_or(false);
        if ok { out.push((format!("random-{}-{}", seed, out.len()), t)); }
    }
    out
}
