//! `builder`: C15 — functions assembled through the builder API in several insertion orders are emitted as the in-order
//! flattening of the built tree (independent flattening below), with parameters at their positions and distinct slots
//! for distinct used locals.
use anyhow::{bail, Result};
use serde_json::json;
type JValue = serde_json::Value;
use walrus::ir::*;
use walrus::{FunctionBuilder, InstrSeqBuilder, LocalId, Module, ModuleConfig, ValType};

/// stack-neutral statements of a tiny well-typed language
#[derive(Clone, Debug)]
pub enum T {
    ConstDrop(i32),
    Copy(usize, usize),          // local.get a ; local.set b
    Tee(usize),                  // local.get a ; local.tee a ; drop
    Block(Vec<T>),
    Loop(Vec<T>),
    If(usize, Vec<T>, Vec<T>),   // local.get c ; if .. else .. end   (c: an i32 local)
    Br(usize),                   // br depth (0 = innermost enclosing construct)
    BrIf(usize, usize),          // local.get c ; br_if depth
    Shared(usize),               // a block whose body is shared sequence #k (attached wherever it occurs)
}

/// independent flattening: textual operator list
fn flatten(ts: &[T], shared: &[Vec<T>], idx: &dyn Fn(usize) -> u32, out: &mut Vec<String>) {
    for t in ts {
        match t {
            T::ConstDrop(v) => { out.push(format!("i32.const {v}")); out.push("drop".into()); }
            T::Copy(a, b) => { out.push(format!("local.get {}", idx(*a))); out.push(format!("local.set {}", idx(*b))); }
            T::Tee(a) => { out.push(format!("local.get {}", idx(*a))); out.push(format!("local.tee {}", idx(*a))); out.push("drop".into()); }
            T::Block(b) => { out.push("block".into()); flatten(b, shared, idx, out); out.push("end".into()); }
            T::Loop(b) => { out.push("loop".into()); flatten(b, shared, idx, out); out.push("end".into()); }
            T::If(c, a, b) => {
                out.push(format!("local.get {}", idx(*c)));
                out.push("if".into()); flatten(a, shared, idx, out);
                out.push("else".into()); flatten(b, shared, idx, out);
                out.push("end".into());
            }
            T::Br(d) => out.push(format!("br {d}")),
            T::BrIf(c, d) => { out.push(format!("local.get {}", idx(*c))); out.push(format!("br_if {d}")); }
            T::Shared(k) => { out.push("block".into()); flatten(&shared[*k], shared, idx, out); out.push("end".into()); }
        }
    }
}

#[derive(Clone, Copy, Debug, PartialEq)]
pub enum Order { Append, Front, Middle, Dangling, ClosuresAt }

struct Cx<'a> { locals: &'a [LocalId], shared_ids: &'a [InstrSeqId], order: Order }

/// the flat list of single instructions a statement stands for at this level (nested constructs are built first)
fn build_seq(b: &mut InstrSeqBuilder, ts: &[T], stack: &mut Vec<InstrSeqId>, cx: &Cx) {
    // `stack`: enclosing constructs, innermost last (the sequence being built is the last one)
    let mut items: Vec<Instr> = vec![];
    for t in ts {
        match t {
            T::ConstDrop(v) => { items.push(Const { value: Value::I32(*v) }.into()); items.push(Drop {}.into()); }
            T::Copy(x, y) => { items.push(LocalGet { local: cx.locals[*x] }.into()); items.push(LocalSet { local: cx.locals[*y] }.into()); }
            T::Tee(x) => { items.push(LocalGet { local: cx.locals[*x] }.into()); items.push(LocalTee { local: cx.locals[*x] }.into()); items.push(Drop {}.into()); }
            T::Br(d) => items.push(Br { block: stack[stack.len() - 1 - d] }.into()),
            T::BrIf(c, d) => { items.push(LocalGet { local: cx.locals[*c] }.into()); items.push(BrIf { block: stack[stack.len() - 1 - d] }.into()); }
            T::Block(body) | T::Loop(body) => {
                let is_loop = matches!(t, T::Loop(_));
                let seq = {
                    let mut inner = b.dangling_instr_seq(None);
                    let id = inner.id();
                    stack.push(id);
                    build_seq(&mut inner, body, stack, cx);
                    stack.pop();
                    id
                };
                items.push(if is_loop { Loop { seq }.into() } else { Block { seq }.into() });
            }
            T::If(c, x, y) => {
                items.push(LocalGet { local: cx.locals[*c] }.into());
                // alternative built BEFORE the consequent when the order is not plain append
                let mut mk = |body: &Vec<T>, b: &mut InstrSeqBuilder, stack: &mut Vec<InstrSeqId>| {
                    let mut inner = b.dangling_instr_seq(None);
                    let id = inner.id();
                    stack.push(id);
                    build_seq(&mut inner, body, stack, cx);
                    stack.pop();
                    id
                };
                let (consequent, alternative) = if cx.order == Order::Append { let a = mk(x, b, stack); let c = mk(y, b, stack); (a, c) } else { let c = mk(y, b, stack); let a = mk(x, b, stack); (a, c) };
                items.push(IfElse { consequent, alternative }.into());
            }
            T::Shared(k) => items.push(Block { seq: cx.shared_ids[*k] }.into()),
        }
    }
    match cx.order {
        Order::Append | Order::Dangling | Order::ClosuresAt => for i in items { b.instr(i); },
        Order::Front => for i in items.into_iter().rev() { b.instr_at(0, i); },
        Order::Middle => {
            // even positions first, then the odd ones spliced in at their final positions
            let n = items.len();
            let mut evens = vec![]; let mut odds = vec![];
            for (k, i) in items.into_iter().enumerate() { if k % 2 == 0 { evens.push(i) } else { odds.push((k, i)) } }
            for i in evens { b.instr(i); }
            for (k, i) in odds { b.instr_at(k, i); }
            let _ = n;
        }
    }
}

/// the same tree through the closure-taking constructors (block / loop_ / if_else and the generated methods)
fn build_closures(b: &mut InstrSeqBuilder, ts: &[T], stack: &mut Vec<InstrSeqId>, cx: &Cx) {
    for t in ts {
        match t {
            T::ConstDrop(v) => { b.i32_const(*v).drop(); }
            T::Copy(x, y) => { b.local_get(cx.locals[*x]).local_set(cx.locals[*y]); }
            T::Tee(x) => { b.local_get(cx.locals[*x]).local_tee(cx.locals[*x]).drop(); }
            T::Br(d) => { b.br(stack[stack.len() - 1 - d]); }
            T::BrIf(c, d) => { b.local_get(cx.locals[*c]).br_if(stack[stack.len() - 1 - d]); }
            T::Block(body) => { b.block(None, |inner| { stack.push(inner.id()); build_closures(inner, body, stack, cx); stack.pop(); }); }
            T::Loop(body) => { b.loop_(None, |inner| { stack.push(inner.id()); build_closures(inner, body, stack, cx); stack.pop(); }); }
            T::If(c, x, y) => {
                b.local_get(cx.locals[*c]);
                let st = std::cell::RefCell::new(std::mem::take(stack));
                b.if_else(None,
                    |inner| { let mut s = st.borrow_mut(); s.push(inner.id()); build_closures(inner, x, &mut s, cx); s.pop(); },
                    |inner| { let mut s = st.borrow_mut(); s.push(inner.id()); build_closures(inner, y, &mut s, cx); s.pop(); });
                *stack = st.into_inner();
            }
            T::Shared(k) => { b.instr(Block { seq: cx.shared_ids[*k] }); }
        }
    }
}

/// the same tree through the `_at` closure constructors and generated `_at` methods, statements inserted at position 0 in reverse
fn build_closures_at(b: &mut InstrSeqBuilder, ts: &[T], stack: &mut Vec<InstrSeqId>, cx: &Cx) {
    for t in ts.iter().rev() {
        match t {
            T::ConstDrop(v) => { b.drop_at(0).const_at(0, Value::I32(*v)); }
            T::Copy(x, y) => { b.local_set_at(0, cx.locals[*y]).local_get_at(0, cx.locals[*x]); }
            T::Tee(x) => { b.drop_at(0).local_tee_at(0, cx.locals[*x]).local_get_at(0, cx.locals[*x]); }
            T::Br(d) => { b.br_at(0, stack[stack.len() - 1 - d]); }
            T::BrIf(c, d) => { b.br_if_at(0, stack[stack.len() - 1 - d]).local_get_at(0, cx.locals[*c]); }
            T::Block(body) => { b.block_at(0, None, |inner| { stack.push(inner.id()); build_closures_at(inner, body, stack, cx); stack.pop(); }); }
            T::Loop(body) => { b.loop_at(0, None, |inner| { stack.push(inner.id()); build_closures_at(inner, body, stack, cx); stack.pop(); }); }
            T::If(c, x, y) => {
                let st = std::cell::RefCell::new(std::mem::take(stack));
                b.if_else_at(0, None,
                    |inner| { let mut s = st.borrow_mut(); s.push(inner.id()); build_closures_at(inner, x, &mut s, cx); s.pop(); },
                    |inner| { let mut s = st.borrow_mut(); s.push(inner.id()); build_closures_at(inner, y, &mut s, cx); s.pop(); });
                *stack = st.into_inner();
                b.local_get_at(0, cx.locals[*c]);
            }
            T::Shared(k) => { b.instr_at(0, Block { seq: cx.shared_ids[*k] }); }
        }
    }
}

pub struct Case { pub name: String, pub n_params: usize, pub n_locals: usize, pub reverse_alloc: bool, pub shared: Vec<Vec<T>>, pub body: Vec<T> }

fn lcg(s: &mut u64) -> u64 { *s = s.wrapping_mul(6364136223846793005).wrapping_add(1442695040888963407); *s >> 33 }

fn gen_tree(seed: &mut u64, depth: usize, enclosing: usize, nloc: usize, budget: &mut usize) -> Vec<T> {
    let n = 1 + (lcg(seed) % 4) as usize;
    let mut v = vec![];
    for _ in 0..n {
        if *budget == 0 { break; }
        *budget -= 1;
        let k = lcg(seed) % 10;
        let a = (lcg(seed) as usize) % nloc; let b = (lcg(seed) as usize) % nloc;
        v.push(match k {
            0 | 1 => T::ConstDrop((lcg(seed) % 100) as i32),
            2 => T::Copy(a, b),
            3 => T::Tee(a),
            4 if depth > 0 => T::Block(gen_tree(seed, depth - 1, enclosing + 1, nloc, budget)),
            5 if depth > 0 => T::Loop(gen_tree(seed, depth - 1, enclosing + 1, nloc, budget)),
            6 if depth > 0 => T::If(a, gen_tree(seed, depth - 1, enclosing + 1, nloc, budget), gen_tree(seed, depth - 1, enclosing + 1, nloc, budget)),
            7 => T::BrIf(a, (lcg(seed) as usize) % enclosing),
            8 if lcg(seed) % 3 == 0 => { v.push(T::Br((lcg(seed) as usize) % enclosing)); break; }
            _ => T::ConstDrop(7),
        });
    }
    v
}

pub fn cases(n_random: usize) -> Vec<Case> {
    let mut out = vec![
        Case { name: "shared-twice-self-branch".into(), n_params: 1, n_locals: 2, reverse_alloc: false,
               shared: vec![vec![T::ConstDrop(1), T::BrIf(0, 0), T::ConstDrop(2)]],
               body: vec![T::Shared(0), T::Block(vec![T::Loop(vec![T::Shared(0), T::BrIf(0, 1)])]), T::Shared(0)] },
        Case { name: "params-allocated-in-reverse".into(), n_params: 3, n_locals: 5, reverse_alloc: true, shared: vec![],
               body: vec![T::Copy(0, 3), T::Copy(1, 4), T::Copy(2, 3), T::Tee(1)] },
        Case { name: "unused-local-between-used".into(), n_params: 2, n_locals: 6, reverse_alloc: false, shared: vec![],
               body: vec![T::Copy(0, 2), T::Copy(1, 5), T::Block(vec![T::Copy(5, 2), T::BrIf(0, 0)])] },
        Case { name: "deep-branches".into(), n_params: 1, n_locals: 1, reverse_alloc: false, shared: vec![],
               body: vec![T::Block(vec![T::Loop(vec![T::If(0, vec![T::BrIf(0, 0), T::BrIf(0, 1), T::BrIf(0, 2), T::BrIf(0, 3)], vec![T::Br(2)]), T::Br(0)])])] },
        Case { name: "loop-at-front".into(), n_params: 1, n_locals: 1, reverse_alloc: false, shared: vec![],
               body: vec![T::Loop(vec![T::BrIf(0, 0)]), T::ConstDrop(3), T::Loop(vec![T::ConstDrop(4), T::BrIf(0, 0)]), T::Block(vec![T::BrIf(0, 0)])] },
    ];
    let mut seed = 0x5eed_u64;
    for i in 0..n_random {
        let n_params = (lcg(&mut seed) % 3) as usize;
        let n_locals = n_params + 1 + (lcg(&mut seed) % 3) as usize;
        let mut budget = 14;
        out.push(Case { name: format!("random-{i}"), n_params, n_locals, reverse_alloc: i % 4 == 3, shared: vec![], body: gen_tree(&mut seed, 3, 1, n_locals, &mut budget) });
    }
    out
}

fn decode(wasm: &[u8]) -> Result<(Vec<(u32, wasmparser::ValType)>, Vec<String>)> {
    for p in wasmparser::Parser::new(0).parse_all(wasm) {
        if let wasmparser::Payload::CodeSectionEntry(b) = p? {
            let mut locals = vec![];
            for l in b.get_locals_reader()? { locals.push(l?); }
            let mut ops = vec![];
            let mut r = b.get_operators_reader()?;
            while !r.eof() {
                use wasmparser::Operator as O;
                ops.push(match r.read()? {
                    O::I32Const { value } => format!("i32.const {value}"), O::Drop => "drop".into(),
                    O::LocalGet { local_index } => format!("local.get {local_index}"), O::LocalSet { local_index } => format!("local.set {local_index}"),
                    O::LocalTee { local_index } => format!("local.tee {local_index}"),
                    O::Block { .. } => "block".into(), O::Loop { .. } => "loop".into(), O::If { .. } => "if".into(), O::Else => "else".into(), O::End => "end".into(),
                    O::Br { relative_depth } => format!("br {relative_depth}"), O::BrIf { relative_depth } => format!("br_if {relative_depth}"),
                    other => format!("{other:?}"),
                });
            }
            return Ok((locals, ops));
        }
    }
    bail!("no code section entry")
}

fn run_case(c: &Case, order: Option<Order>) -> Result<Option<String>> {
    let mut module = Module::with_config(ModuleConfig::new());
    // locals: params i32 ; extra locals alternate i32 / i64?  keep all i32 except the last extra which is i64 and unused
    let mut ids: Vec<Option<LocalId>> = vec![None; c.n_locals];
    let order_alloc: Vec<usize> = if c.reverse_alloc { (0..c.n_locals).rev().collect() } else { (0..c.n_locals).collect() };
    for k in order_alloc { ids[k] = Some(module.locals.add(ValType::I32)); }
    let _unused_i64 = module.locals.add(ValType::I64);
    let locals: Vec<LocalId> = ids.into_iter().map(|x| x.unwrap()).collect();
    let params = vec![ValType::I32; c.n_params];
    let mut fb = FunctionBuilder::new(&mut module.types, &params, &[]);
    let mut shared_ids = vec![];
    // shared sequences are dangling sequences attached later (possibly more than once); a branch inside targets the sequence itself
    for s in &c.shared {
        let mut b = fb.dangling_instr_seq(None);
        let id = b.id();
        let cx = Cx { locals: &locals, shared_ids: &[], order: Order::Append };
        build_seq(&mut b, s, &mut vec![id], &cx);
        shared_ids.push(id);
    }
    let entry = fb.func_body_id();
    {
        let mut body = fb.func_body();
        match order {
            Some(Order::ClosuresAt) => { let cx = Cx { locals: &locals, shared_ids: &shared_ids, order: Order::Append }; build_closures_at(&mut body, &c.body, &mut vec![entry], &cx); }
            Some(o) => { let cx = Cx { locals: &locals, shared_ids: &shared_ids, order: o }; build_seq(&mut body, &c.body, &mut vec![entry], &cx); }
            None => { let cx = Cx { locals: &locals, shared_ids: &shared_ids, order: Order::Append }; build_closures(&mut body, &c.body, &mut vec![entry], &cx); }
        }
    }
    let f = fb.finish(locals[..c.n_params].to_vec(), &mut module.funcs);
    module.exports.add("f", f);
    let wasm = module.emit_wasm();
    if let Err(e) = wasmparser::Validator::new_with_features(wasmparser::WasmFeatures::default()).validate_all(&wasm) {
        return Ok(Some(format!("emitted module does not validate: {e}")));
    }
    let (decl, ops) = decode(&wasm)?;
    // recover the local numbering from the output: params are 0..n_params by position; every other used local must get its own
    // index >= n_params whose declared type is i32
    let mut used: Vec<usize> = vec![];
    fn uses(ts: &[T], shared: &[Vec<T>], out: &mut Vec<usize>) {
        for t in ts { match t {
            T::Copy(a, b) => { out.push(*a); out.push(*b) } T::Tee(a) => out.push(*a), T::BrIf(c, _) => out.push(*c),
            T::Block(b) | T::Loop(b) => uses(b, shared, out), T::If(c, a, b) => { out.push(*c); uses(a, shared, out); uses(b, shared, out) }
            T::Shared(k) => uses(&shared[*k], shared, out), _ => {} } }
    }
    uses(&c.body, &c.shared, &mut used);
    let mut extra: Vec<usize> = used.iter().cloned().filter(|l| *l >= c.n_params).collect();
    extra.sort(); extra.dedup();
    let total_decl: u32 = decl.iter().map(|(n, _)| *n).sum();
    if total_decl as usize != extra.len() { return Ok(Some(format!("{} non-parameter locals are used but {} are declared", extra.len(), total_decl))); }
    if decl.iter().any(|(_, t)| *t != wasmparser::ValType::I32) { return Ok(Some(format!("declared locals {:?}: an unused i64 local was emitted or a type is wrong", decl))); }
    // try every assignment of the extra locals to the declared slots (they are few): one must reproduce the body exactly
    let slots: Vec<u32> = (0..extra.len() as u32).map(|k| c.n_params as u32 + k).collect();
    let mut perm: Vec<usize> = (0..extra.len()).collect();
    let mut ok = false;
    let mut first_expected = vec![];
    loop {
        let idx = |l: usize| -> u32 { if l < c.n_params { l as u32 } else { slots[perm[extra.iter().position(|e| *e == l).unwrap_or(0)]] } };
        let mut expected = vec![];
        flatten(&c.body, &c.shared, &idx, &mut expected);
        expected.push("end".into());
        if first_expected.is_empty() { first_expected = expected.clone(); }
        if expected == ops { ok = true; break; }
        // next permutation
        let n = perm.len();
        if n < 2 { break; }
        let mut i = n - 1;
        while i > 0 && perm[i - 1] >= perm[i] { i -= 1; }
        if i == 0 { break; }
        let mut j = n - 1;
        while perm[j] <= perm[i - 1] { j -= 1; }
        perm.swap(i - 1, j);
        perm[i..].reverse();
    }
    if !ok { return Ok(Some(format!("emitted body is not the in-order flattening of the built tree (under any injective slot assignment with parameters at their positions): expected {:?} got {:?}", first_expected, ops))); }
    Ok(None)
}

pub fn builder(args: &[String]) -> Result<JValue> {
    std::panic::set_hook(Box::new(|_| {}));
    let n_random: usize = args.first().and_then(|s| s.parse().ok()).unwrap_or(150);
    let mut failures = vec![];
    let mut checked = 0;
    for c in cases(n_random) {
        for order in [None, Some(Order::ClosuresAt), Some(Order::Append), Some(Order::Front), Some(Order::Middle), Some(Order::Dangling)] {
            checked += 1;
            let r = std::panic::catch_unwind(std::panic::AssertUnwindSafe(|| run_case(&c, order)));
            let what = match r { Ok(Ok(None)) => continue, Ok(Ok(Some(w))) => w, Ok(Err(e)) => format!("error: {e:#}"), Err(_) => "panic while building / emitting".to_string() };
            failures.push(json!({"case": c.name, "order": format!("{order:?} (None = closure constructors)"), "tree": format!("{:?}", c.body), "shared": format!("{:?}", c.shared),
                                 "n_params": c.n_params, "what": what}));
        }
    }
    // generated methods with two operands of the same type: positional meaning of the `_at` and the pushing variants
    checked += 1;
    let r = std::panic::catch_unwind(|| -> Result<Option<String>> {
        let mut module = Module::with_config(ModuleConfig::new());
        let m0 = module.memories.add_local(false, false, 1, None, None);
        let m1 = module.memories.add_local(false, false, 2, None, None);
        let t0 = module.tables.add_local(false, 1, None, walrus::RefType::Funcref);
        let t1 = module.tables.add_local(false, 2, None, walrus::RefType::Funcref);
        let mut fb = FunctionBuilder::new(&mut module.types, &[], &[]);
        {
            let mut b = fb.func_body();
            // pushing variants: (src, dst) in field order
            b.i32_const(0).i32_const(0).i32_const(0).memory_copy(m0, m1);
            b.i32_const(0).i32_const(0).i32_const(0).table_copy(t0, t1);
            // `_at` variants appended at the end positions
            let n = b.instrs().len();
            b.const_at(n, Value::I32(0)).const_at(n + 1, Value::I32(0)).const_at(n + 2, Value::I32(0)).memory_copy_at(n + 3, m1, m0);
            let n = b.instrs().len();
            b.const_at(n, Value::I32(0)).const_at(n + 1, Value::I32(0)).const_at(n + 2, Value::I32(0)).table_copy_at(n + 3, t1, t0);
        }
        let f = fb.finish(vec![], &mut module.funcs);
        module.exports.add("f", f);
        module.exports.add("m0", m0); module.exports.add("m1", m1); module.exports.add("t0", t0); module.exports.add("t1", t1);
        let wasm = module.emit_wasm();
        let mut feats = wasmparser::WasmFeatures::default(); feats.insert(wasmparser::WasmFeatures::MULTI_MEMORY);
        wasmparser::Validator::new_with_features(feats).validate_all(&wasm).map_err(|e| anyhow::anyhow!("does not validate: {e}"))?;
        let (_, ops) = decode(&wasm)?;
        let copies: Vec<&String> = ops.iter().filter(|o| o.contains("Copy")).collect();
        let want = ["MemoryCopy { dst_mem: 1, src_mem: 0 }", "TableCopy { dst_table: 1, src_table: 0 }", "MemoryCopy { dst_mem: 0, src_mem: 1 }", "TableCopy { dst_table: 0, src_table: 1 }"];
        if copies.len() != 4 || copies.iter().zip(want.iter()).any(|(a, b)| a.as_str() != *b) { return Ok(Some(format!("memory_copy(src, dst) / table_copy(src, dst) and their _at variants: expected {:?}, emitted {:?}", want, copies))); }
        Ok(None)
    });
    match r { Ok(Ok(None)) => {}, Ok(Ok(Some(w))) => failures.push(json!({"case": "two-operand generated methods", "what": w})), Ok(Err(e)) => failures.push(json!({"case": "two-operand generated methods", "what": format!("error: {e:#}")})), Err(_) => failures.push(json!({"case": "two-operand generated methods", "what": "panic"})) }
    failures.truncate(8);
    // locals of every value type (both reference types included), created in several orders, some unused, parameters of mixed types with
    // one of them unused: every used local has a slot of its own, of its own type; parameter i is slot i
    for variant in 0..6usize {
        checked += 1;
        let r = std::panic::catch_unwind(move || typed_locals_case(variant));
        let name = format!("typed-locals-{variant}");
        match r { Ok(Ok(None)) => {}, Ok(Ok(Some(w))) => failures.push(json!({"case": name, "what": w})), Ok(Err(e)) => failures.push(json!({"case": name, "what": format!("error: {e:#}")})), Err(_) => failures.push(json!({"case": name, "what": "panic while building / emitting"})) }
    }
    // blocks, loops and ifs whose signature is given as (params, results) -- InstrSeqType::new --: 0..2 parameters x 0..2 results
    for np in 0..3usize {
        for nr in 0..3usize {
            for kind in 0..3usize {
                checked += 1;
                let r = std::panic::catch_unwind(move || typed_block_case(np, nr, kind));
                let name = format!("typed-block-{np}-params-{nr}-results-kind-{kind}");
                match r { Ok(Ok(None)) => {}, Ok(Ok(Some(w))) => failures.push(json!({"case": name, "what": w})), Ok(Err(e)) => failures.push(json!({"case": name, "what": format!("error: {e:#}")})), Err(_) => failures.push(json!({"case": name, "what": "panic while building / emitting"})) }
            }
        }
    }
    Ok(json!({"violated": !failures.is_empty(), "cases_checked": checked, "failures": failures}))
}

/// a function (params) -> (results) whose body pushes its parameters and runs ONE block / loop / if of signature (params) -> (results),
/// built through `InstrSeqType::new`; the emitted block type must denote exactly that signature (inline form iff it fits) and validate
fn typed_block_case(np: usize, nr: usize, kind: usize) -> Result<Option<String>> {
    use walrus::ir::InstrSeqType;
    let all = [ValType::I32, ValType::I64];
    let params: Vec<ValType> = (0..np).map(|k| all[k % 2]).collect();
    let results: Vec<ValType> = (0..nr).map(|k| all[(k + 1) % 2]).collect();
    let mut module = Module::with_config(ModuleConfig::new());
    let args: Vec<LocalId> = params.iter().map(|t| module.locals.add(*t)).collect();
    let cond = module.locals.add(ValType::I32);
    let mut fparams = params.clone(); fparams.push(ValType::I32);
    let ty = InstrSeqType::new(&mut module.types, &params, &results);
    let mut fb = FunctionBuilder::new(&mut module.types, &fparams, &results);
    let fill = |b: &mut walrus::InstrSeqBuilder| {
        for _ in 0..np { b.drop(); }
        for t in &results { match t { ValType::I32 => { b.i32_const(1); } _ => { b.i64_const(2); } } }
    };
    {
        let mut b = fb.func_body();
        for a in &args { b.local_get(*a); }
        match kind {
            0 => { b.block(ty, |i| fill(i)); }
            1 => { b.loop_(ty, |i| fill(i)); }
            _ => { b.local_get(cond); b.if_else(ty, |i| fill(i), |i| fill(i)); }
        }
    }
    let mut fargs = args.clone(); fargs.push(cond);
    let f = fb.finish(fargs, &mut module.funcs);
    module.exports.add("f", f);
    let wasm = module.emit_wasm();
    let mut feats = wasmparser::WasmFeatures::default();
    feats.insert(wasmparser::WasmFeatures::MULTI_VALUE);
    if let Err(e) = wasmparser::Validator::new_with_features(feats).validate_all(&wasm) { return Ok(Some(format!("emitted module does not validate: {e}"))); }
    // the block type as emitted
    let mut types: Vec<(Vec<wasmparser::ValType>, Vec<wasmparser::ValType>)> = vec![];
    let mut found = None;
    for p in wasmparser::Parser::new(0).parse_all(&wasm) {
        match p? {
            wasmparser::Payload::TypeSection(s) => for g in s { for st in g?.into_types() { if let wasmparser::CompositeInnerType::Func(f) = st.composite_type.inner { types.push((f.params().to_vec(), f.results().to_vec())); } } },
            wasmparser::Payload::CodeSectionEntry(b) => for op in b.get_operators_reader()? { match op? {
                wasmparser::Operator::Block { blockty } | wasmparser::Operator::Loop { blockty } | wasmparser::Operator::If { blockty } => { if found.is_none() { found = Some(blockty); } }
                _ => {} } },
            _ => {}
        }
    }
    let wp = |t: &ValType| if *t == ValType::I32 { wasmparser::ValType::I32 } else { wasmparser::ValType::I64 };
    let (wp_params, wp_results): (Vec<_>, Vec<_>) = (params.iter().map(wp).collect(), results.iter().map(wp).collect());
    match found {
        Some(wasmparser::BlockType::Empty) => if np != 0 || nr != 0 { return Ok(Some(format!("signature {params:?} -> {results:?} emitted as the empty block type"))); },
        Some(wasmparser::BlockType::Type(t)) => if np != 0 || nr != 1 || t != wp_results[0] { return Ok(Some(format!("signature {params:?} -> {results:?} emitted as the inline block type {t:?}"))); },
        Some(wasmparser::BlockType::FuncType(i)) => {
            if np == 0 && nr <= 1 { return Ok(Some(format!("signature {params:?} -> {results:?} fits the inline form but is emitted as type index {i}"))); }
            match types.get(i as usize) { Some((p, r)) if *p == wp_params && *r == wp_results => {}, other => return Ok(Some(format!("signature {params:?} -> {results:?} emitted as type {i} = {:?}", other))) }
        }
        None => return Ok(Some("no block / loop / if in the emitted body".into())),
    }
    Ok(None)
}


fn typed_locals_case(variant: usize) -> Result<Option<String>> {
    use walrus::RefType;
    let tys = [ValType::I32, ValType::I64, ValType::F32, ValType::F64, ValType::V128, ValType::Ref(RefType::Funcref), ValType::Ref(RefType::Externref)];
    let wp = |t: ValType| -> wasmparser::ValType { match t {
        ValType::I32 => wasmparser::ValType::I32, ValType::I64 => wasmparser::ValType::I64, ValType::F32 => wasmparser::ValType::F32, ValType::F64 => wasmparser::ValType::F64,
        ValType::V128 => wasmparser::ValType::V128, ValType::Ref(RefType::Funcref) => wasmparser::ValType::FUNCREF, ValType::Ref(_) => wasmparser::ValType::EXTERNREF } };
    let mut module = Module::with_config(ModuleConfig::new());
    // 14 body locals (two per type) + 3 parameters; creation order depends on the variant
    let mut want: Vec<ValType> = vec![];
    for k in 0..14 { want.push(tys[(k + variant) % 7]); }
    let param_tys = [tys[(1 + variant) % 7], tys[(6 + variant) % 7], tys[(2 + variant) % 7]];
    let mut order: Vec<usize> = (0..17).collect();           // 0..14 body locals, 14..17 parameters
    match variant % 3 { 1 => order.reverse(), 2 => order.rotate_left(5), _ => {} }
    let mut ids: Vec<Option<LocalId>> = vec![None; 17];
    for k in order { ids[k] = Some(module.locals.add(if k < 14 { want[k] } else { param_tys[k - 14] })); }
    let ids: Vec<LocalId> = ids.into_iter().map(|x| x.unwrap()).collect();
    let mut fb = FunctionBuilder::new(&mut module.types, &param_tys, &[]);
    // used: every body local except #3 and #10 (skipped), parameters 0 and 2 (parameter 1 is never read)
    let mut seq: Vec<usize> = (0..14).filter(|k| *k != 3 && *k != 10).collect();
    if variant >= 3 { seq.reverse(); }
    seq.insert(2, 14); seq.push(16);
    {
        let mut b = fb.func_body();
        for k in &seq { b.local_get(ids[*k]).local_set(ids[*k]); }
    }
    let f = fb.finish(vec![ids[14], ids[15], ids[16]], &mut module.funcs);
    module.exports.add("f", f);
    let wasm = module.emit_wasm();
    let mut feats = wasmparser::WasmFeatures::default();
    feats.insert(wasmparser::WasmFeatures::REFERENCE_TYPES | wasmparser::WasmFeatures::SIMD);
    if let Err(e) = wasmparser::Validator::new_with_features(feats).validate_all(&wasm) { return Ok(Some(format!("emitted module does not validate: {e}"))); }
    let (decl, ops) = decode(&wasm)?;
    let slot_ty = |i: u32| -> Option<wasmparser::ValType> { let mut base = 3u32; for (n, t) in &decl { if i >= base && i < base + n { return Some(*t); } base += n; } None };
    let total: u32 = decl.iter().map(|(n, _)| *n).sum();
    if total as usize != 12 { return Ok(Some(format!("12 non-parameter locals are used but {total} are declared ({decl:?})"))); }
    let mut seen: Vec<(u32, usize)> = vec![];
    for (j, k) in seq.iter().enumerate() {
        let (g, st) = (&ops[2 * j], &ops[2 * j + 1]);
        let i: u32 = match g.strip_prefix("local.get ") { Some(x) => x.parse()?, None => return Ok(Some(format!("operator {} of the body is {g}, not a local.get", 2 * j))) };
        if *st != format!("local.set {i}") { return Ok(Some(format!("local.get {i} is followed by {st}"))); }
        if *k >= 14 { if i as usize != *k - 14 { return Ok(Some(format!("parameter {} is read at index {i}", *k - 14))); } continue; }
        if i < 3 { return Ok(Some(format!("body local #{k} shares the slot of parameter {i}"))); }
        if slot_ty(i) != Some(wp(want[*k])) { return Ok(Some(format!("body local #{k} of type {:?} sits in slot {i} declared as {:?} (declarations {decl:?})", want[*k], slot_ty(i)))); }
        if let Some((_, other)) = seen.iter().find(|(s, _)| *s == i) { return Ok(Some(format!("body locals #{k} and #{other} share slot {i}"))); }
        seen.push((i, *k));
    }
    Ok(None)
}
