//! `edits`: C02 — after well-formed edits through the public edit APIs the module still emits without panicking, the binary validates,
//! and what was added / removed shows up in it.
use anyhow::{anyhow, Result};
use serde_json::json;
use walrus::ir::Value;
use walrus::{ConstExpr, DataKind, ElementItems, ElementKind, FunctionBuilder, Module, ModuleConfig, RefType, ValType};
type JValue = serde_json::Value;

const BASES: &[(&str, &str)] = &[
    ("empty", r#"(module)"#),
    ("small", r#"(module (import "e" "i" (func $i (param i32))) (memory 1) (table 2 funcref) (global $g i32 (i32.const 1))
        (func $a (export "a") (call $i (i32.const 1))) (func $mid (nop) (nop)) (func $b (export "b") (call $i (global.get $g)) (call $a))
        (elem (i32.const 0) func $a))"#),
    ("no-data-no-elem", r#"(module (memory 1) (table 1 funcref) (func $f (export "f") (result i32) (i32.load (i32.const 0))))"#),
];

#[derive(Default, Debug, PartialEq, Clone)]
struct Counts { imports: usize, funcs: usize, tables: usize, mems: usize, globals: usize, exports: usize, elems: usize, datas: usize }
fn counts(wasm: &[u8]) -> Result<Counts> {
    use wasmparser::{Parser, Payload};
    let mut c = Counts::default();
    for p in Parser::new(0).parse_all(wasm) {
        match p? {
            Payload::ImportSection(s) => c.imports = s.count() as usize,
            Payload::FunctionSection(s) => c.funcs = s.count() as usize,
            Payload::TableSection(s) => c.tables = s.count() as usize,
            Payload::MemorySection(s) => c.mems = s.count() as usize,
            Payload::GlobalSection(s) => c.globals = s.count() as usize,
            Payload::ExportSection(s) => c.exports = s.count() as usize,
            Payload::ElementSection(s) => c.elems = s.count() as usize,
            Payload::DataSection(s) => c.datas = s.count() as usize,
            _ => {}
        }
    }
    Ok(c)
}
fn validate(wasm: &[u8]) -> Result<()> {
    let mut f = wasmparser::WasmFeatures::default();
    f.insert(wasmparser::WasmFeatures::MULTI_MEMORY);
    wasmparser::Validator::new_with_features(f).validate_all(wasm).map(|_| ()).map_err(|e| anyhow!("output does not validate: {e}"))
}

type Edit = (&'static str, fn(&mut Module, &mut Counts) -> Result<()>);

fn first_memory(m: &mut Module, c: &mut Counts) -> walrus::MemoryId {
    let first = m.memories.iter().next().map(|x| x.id());
    match first { Some(x) => x, None => { c.mems += 1; m.memories.add_local(false, false, 1, None, None) } }
}
fn first_table(m: &mut Module, c: &mut Counts) -> walrus::TableId {
    let first = m.tables.iter().find(|t| t.element_ty == RefType::Funcref).map(|x| x.id());   // (a well-formed edit: a funcref table for function items)
    match first { Some(x) => x, None => { c.tables += 1; m.tables.add_local(false, 4, None, RefType::Funcref) } }
}
fn new_func(m: &mut Module, c: &mut Counts, k: i32) -> walrus::FunctionId {
    let mut b = FunctionBuilder::new(&mut m.types, &[], &[]);
    b.func_body().i32_const(k).drop();
    c.funcs += 1;
    b.finish(vec![], &mut m.funcs)
}

fn edits() -> Vec<Edit> {
    vec![
        ("add a global and export it", |m, c| { let g = m.globals.add_local(ValType::I64, true, false, ConstExpr::Value(Value::I64(7))); m.exports.add("new_global", g); c.globals += 1; c.exports += 1; Ok(()) }),
        ("add an imported global read by a new exported global's initialiser", |m, c| {
            let (ig, _) = m.add_import_global("env", "ig", ValType::I32, false, false);
            let g = m.globals.add_local(ValType::I32, false, false, ConstExpr::Global(ig)); m.exports.add("g_from_import", g);
            c.imports += 1; c.globals += 1; c.exports += 1; Ok(()) }),
        ("add an active data segment (module may have had no data section)", |m, c| {
            let mem = first_memory(m, c);
            m.data.add(DataKind::Active { memory: mem, offset: ConstExpr::Value(Value::I32(8)) }, vec![1, 2, 3]);
            m.exports.add("mem_for_data", mem); c.datas += 1; c.exports += 1; Ok(()) }),
        ("add a passive data segment used by a new exported function", |m, c| {
            let mem = first_memory(m, c);
            let d = m.data.add(DataKind::Passive, vec![9; 4]);
            let mut b = FunctionBuilder::new(&mut m.types, &[], &[]);
            b.func_body().i32_const(0).i32_const(0).i32_const(4).memory_init(mem, d).data_drop(d);
            let f = b.finish(vec![], &mut m.funcs); m.exports.add("use_passive", f);
            c.datas += 1; c.funcs += 1; c.exports += 1; Ok(()) }),
        ("add an element segment naming an otherwise unreferenced new function", |m, c| {
            let t = first_table(m, c);
            let f = new_func(m, c, 41);
            m.elements.add(ElementKind::Active { table: t, offset: ConstExpr::Value(Value::I32(0)) }, ElementItems::Functions(vec![f]));
            m.exports.add("table_for_elem", t); c.elems += 1; c.exports += 1; Ok(()) }),
        ("add a declared element segment and a function that takes ref.func of it", |m, c| {
            let f = new_func(m, c, 42);
            m.elements.add(ElementKind::Declared, ElementItems::Functions(vec![f]));
            let mut b = FunctionBuilder::new(&mut m.types, &[], &[ValType::Ref(RefType::Funcref)]);
            b.func_body().ref_func(f);
            let g = b.finish(vec![], &mut m.funcs); m.exports.add("take_ref", g);
            c.elems += 1; c.funcs += 1; c.exports += 1; Ok(()) }),
        ("add a table and a memory and export both", |m, c| {
            let t = m.tables.add_local(false, 3, Some(5), RefType::Externref); let mem = m.memories.add_local(false, false, 2, Some(3), None);
            m.exports.add("t_new", t); m.exports.add("m_new", mem); c.tables += 1; c.mems += 1; c.exports += 2; Ok(()) }),
        ("add an imported function called by a new exported function", |m, c| {
            let ty = m.types.add(&[ValType::I32], &[]);
            let (f, _) = m.add_import_func("env", "added", ty);
            let mut b = FunctionBuilder::new(&mut m.types, &[], &[]);
            b.func_body().i32_const(5).call(f);
            let g = b.finish(vec![], &mut m.funcs); m.exports.add("calls_added", g);
            c.imports += 1; c.funcs += 1; c.exports += 1; Ok(()) }),
        ("delete an unreferenced local function that sits between referenced ones", |m, c| {
            let victim = m.funcs.iter_local().map(|(id, _)| id).find(|id| m.exports.get_exported_func(*id).is_none() && m.funcs.get(*id).name.as_deref() == Some("mid"));
            if let Some(v) = victim { m.funcs.delete(v); c.funcs -= 1; }
            Ok(()) }),
        ("delete an unused type, then build a function with the same signature", |m, c| {
            // (a well-formed edit sequence: the signature is interned again; the builder must not be handed the dead id)
            let t = m.types.add(&[ValType::I64, ValType::F32], &[ValType::F64]);
            m.types.delete(t);
            let mut b = FunctionBuilder::new(&mut m.types, &[ValType::I64, ValType::F32], &[ValType::F64]);
            b.func_body().f64_const(1.5);
            let a0 = m.locals.add(ValType::I64); let a1 = m.locals.add(ValType::F32);
            let f = b.finish(vec![a0, a1], &mut m.funcs); m.exports.add("reuses_deleted_signature", f);
            c.funcs += 1; c.exports += 1; Ok(()) }),
        ("gc, then build a function whose signature gc may have removed", |m, c| {
            walrus::passes::gc::run(m);
            let mut b = FunctionBuilder::new(&mut m.types, &[], &[]);
            b.func_body().i32_const(3).drop();
            let f = b.finish(vec![], &mut m.funcs); m.exports.add("after_gc", f);
            let mut b2 = FunctionBuilder::new(&mut m.types, &[ValType::I32], &[]);
            b2.func_body().i32_const(4).drop();
            let a = m.locals.add(ValType::I32);
            let g = b2.finish(vec![a], &mut m.funcs); m.exports.add("after_gc_i32", g);
            // what gc removed from the base module is not this battery's business (C06 / C07): take the inventory from here on
            *c = counts(&m.emit_wasm())?;
            Ok(()) }),
        ("give every type the module hands out a name", |m, _c| {
            // (ModuleTypes::iter also yields the internal function-entry types, which are never emitted: F22)
            let ids: Vec<walrus::TypeId> = m.types.iter().map(|t| t.id()).collect();
            for (i, id) in ids.iter().enumerate() { m.types.get_mut(*id).name = Some(format!("type{i}")); }
            Ok(()) }),
        ("delete an export", |m, c| { let first = m.exports.iter().next().map(|e| e.id()); if let Some(e) = first { m.exports.delete(e); c.exports -= 1; } Ok(()) }),
    ]
}

pub fn edits_battery(args: &[String]) -> Result<JValue> {
    if !args.iter().any(|a| a == "loud") { std::panic::set_hook(Box::new(|_| {})); }
    let mut failures = vec![];
    let mut checked = 0;
    let all = edits();
    for (bname, wat) in BASES {
        let wasm = wat::parse_str(wat)?;
        // every single edit, every pair of edits (in order), and all of them
        let mut plans: Vec<Vec<usize>> = (0..all.len()).map(|i| vec![i]).collect();
        for i in 0..all.len() { for j in 0..all.len() { if i != j { plans.push(vec![i, j]); } } }
        plans.push((0..all.len()).collect());
        for plan in plans {
            for gc in [false, true] {
                checked += 1;
                let names: Vec<&str> = plan.iter().map(|i| all[*i].0).collect();
                let w2 = wasm.clone();
                let plan2 = plan.clone();
                let r = std::panic::catch_unwind(move || -> Result<Option<String>> {
                    let all = edits();
                    let mut config = ModuleConfig::new();
                    config.generate_producers_section(false);
                    let mut m = config.parse(&w2)?;
                    let mut want = counts(&m.emit_wasm())?;
                    for i in &plan2 { (all[*i].1)(&mut m, &mut want)?; }
                    if gc { walrus::passes::gc::run(&mut m); }
                    let out = m.emit_wasm();
                    validate(&out)?;
                    if !gc {
                        let have = counts(&out)?;
                        if have != want { return Ok(Some(format!("entity counts after the edits: expected {:?}, emitted {:?}", want, have))); }
                    }
                    // and it parses again
                    let again = config.parse(&out)?.emit_wasm();
                    validate(&again)?;
                    Ok(None)
                });
                let what = match r { Ok(Ok(None)) => continue, Ok(Ok(Some(w))) => w, Ok(Err(e)) => format!("error: {e:#}"), Err(_) => "panic while editing / emitting".to_string() };
                failures.push(json!({"base": bname, "edits": names, "gc_before_emit": gc, "what": what}));
            }
        }
    }
    // F23 (open finding): the id of an internal function-entry type, obtained through the public API, used where a type index is emitted
    for (bname, wat) in BASES {
        if *bname == "empty" { continue; }
        let wasm = wat::parse_str(wat)?;
        for case in ["wrap a body in a block of the body's own sequence type", "import a function with a signature found by iterating over the types"] {
            checked += 1;
            let w2 = wasm.clone();
            let r = std::panic::catch_unwind(move || -> Result<()> {
                let mut config = ModuleConfig::new();
                config.generate_producers_section(false);
                let mut m = config.parse(&w2)?;
                if case.starts_with("wrap") {
                    let fid = m.funcs.iter_local().map(|(id, _)| id).next().ok_or_else(|| anyhow!("no local function"))?;
                    let f = m.funcs.get_mut(fid).kind.unwrap_local_mut();
                    let entry = f.entry_block();
                    let body_ty = f.block(entry).ty;
                    let old = std::mem::take(&mut f.block_mut(entry).instrs);
                    let b = f.builder_mut();
                    let mut inner = b.dangling_instr_seq(body_ty);
                    *inner.instrs_mut() = old;
                    let inner = inner.id();
                    b.func_body().instr(walrus::ir::Block { seq: inner });
                } else {
                    // the LAST type without parameters: the entry type of the last function
                    let picked = m.types.iter().filter(|t| t.params().is_empty()).last().map(|t| t.id()).ok_or_else(|| anyhow!("no type without parameters"))?;
                    m.add_import_func("env", "picked_signature", picked);
                }
                let out = m.emit_wasm();
                validate(&out)
            });
            let what = match r { Ok(Ok(())) => continue, Ok(Err(e)) => format!("error: {e:#}"), Err(_) => "panic while emitting".to_string() };
            failures.push(json!({"base": bname, "edits": [case], "what": what, "finding_key": "C02:function-entry-type-id-used-where-a-type-index-is-emitted"}));
        }
    }
    let n = failures.len();
    // (failures that are not a recorded finding first: the list is cut)
    failures.sort_by_key(|f| f.get("finding_key").is_some());
    failures.truncate(8);
    Ok(json!({"violated": n > 0, "cases_checked": checked, "n_failures": n, "failures": failures}))
}
