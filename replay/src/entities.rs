//! C04 battery: module-level structure before/after the round trip, compared as a canonical description in
//! which every index is replaced by an identity label (import name, export name, or ordinal among the local
//! entities of its kind), so that consistent renumbering is invisible and nothing else is.
use anyhow::{bail, Result};
use serde_json::{json, Value};
use wasmparser::*;

struct Desc {
    types: Vec<String>,
    func_sigs: Vec<String>,   // per function index: signature text
    labels: std::collections::HashMap<(u8, u32), String>, // (kind, index) -> label ; kind 0 func 1 table 2 mem 3 global
    imports: Vec<Value>,
    counts: [u32; 4],
    imported: [u32; 4],
}

fn limits_t(t: &TableType) -> Value {
    json!({"elem": format!("{:?}", t.element_type), "table64": t.table64, "initial": t.initial, "maximum": t.maximum, "shared": t.shared})
}
fn limits_m(m: &MemoryType) -> Value {
    json!({"memory64": m.memory64, "shared": m.shared, "initial": m.initial, "maximum": m.maximum, "page_size_log2": m.page_size_log2})
}
fn glob_t(g: &GlobalType) -> Value {
    json!({"ty": format!("{:?}", g.content_type), "mutable": g.mutable, "shared": g.shared})
}

fn label(d: &Desc, kind: u8, idx: u32) -> String {
    d.labels.get(&(kind, idx)).cloned().unwrap_or_else(|| format!("?{}#{}", kind, idx))
}

fn const_expr(d: &Desc, e: &ConstExpr) -> Result<Value> {
    let mut v = vec![];
    let mut r = e.get_operators_reader();
    while !r.eof() {
        let op = r.read()?;
        v.push(match op {
            Operator::GlobalGet { global_index } => format!("global.get {}", label(d, 3, global_index)),
            Operator::RefFunc { function_index } => format!("ref.func {}", label(d, 0, function_index)),
            other => format!("{:?}", other),
        });
    }
    Ok(json!(v))
}

pub fn canonical(wasm: &[u8]) -> Result<Value> {
    // pass 1: types, imports, function signatures, exports (for labels)
    let mut d = Desc { types: vec![], func_sigs: vec![], labels: Default::default(), imports: vec![], counts: [0; 4], imported: [0; 4] };
    let mut exports: Vec<(String, u8, u32)> = vec![];
    let mut local_funcs: Vec<u32> = vec![];
    for p in Parser::new(0).parse_all(wasm) {
        match p? {
            Payload::TypeSection(s) => {
                for t in s.into_iter_err_on_gc_types() {
                    let t = t?;
                    d.types.push(format!("{:?} -> {:?}", t.params(), t.results()));
                }
            }
            Payload::ImportSection(s) => {
                for i in s {
                    let i = i?;
                    let (kind, desc) = match i.ty {
                        TypeRef::Func(t) => (0u8, json!({"func": d.types.get(t as usize)})),
                        TypeRef::Table(t) => (1, json!({"table": limits_t(&t)})),
                        TypeRef::Memory(m) => (2, json!({"memory": limits_m(&m)})),
                        TypeRef::Global(g) => (3, json!({"global": glob_t(&g)})),
                        TypeRef::Tag(_) => bail!("tag import"),
                    };
                    let idx = d.counts[kind as usize];
                    d.labels.insert((kind, idx), format!("import:{}.{}", i.module, i.name));
                    if kind == 0 {
                        if let TypeRef::Func(t) = i.ty { d.func_sigs.push(d.types.get(t as usize).cloned().unwrap_or_default()); }
                    }
                    d.counts[kind as usize] += 1;
                    d.imported[kind as usize] += 1;
                    d.imports.push(json!({"module": i.module, "name": i.name, "desc": desc}));
                }
            }
            Payload::FunctionSection(s) => {
                for t in s {
                    let t = t?;
                    local_funcs.push(t);
                    d.func_sigs.push(d.types.get(t as usize).cloned().unwrap_or_default());
                }
            }
            Payload::ExportSection(s) => {
                for e in s {
                    let e = e?;
                    let k = match e.kind { ExternalKind::Func => 0, ExternalKind::Table => 1, ExternalKind::Memory => 2, ExternalKind::Global => 3, _ => bail!("tag export") };
                    exports.push((e.name.to_string(), k, e.index));
                }
            }
            _ => {}
        }
    }
    // labels: first export name wins for functions (they may be reordered); other kinds keep their relative order
    for (name, k, idx) in &exports {
        if *k == 0 {
            d.labels.entry((0, *idx)).or_insert(format!("export:{}", name));
        }
    }
    // pass 2
    let mut tables = vec![];
    let mut mems = vec![];
    let mut globals = vec![];
    let mut elems = vec![];
    let mut datas = vec![];
    let mut start = None;
    let mut bodies: Vec<Vec<String>> = vec![];
    let mut data_count = None;
    for p in Parser::new(0).parse_all(wasm) {
        match p? {
            Payload::TableSection(s) => {
                for t in s {
                    let t = t?;
                    let idx = d.counts[1];
                    d.labels.insert((1, idx), format!("table#{}", idx - d.imported[1]));
                    d.counts[1] += 1;
                    tables.push(json!({"ty": limits_t(&t.ty), "init": format!("{:?}", matches!(t.init, TableInit::RefNull))}));
                }
            }
            Payload::MemorySection(s) => {
                for m in s {
                    let m = m?;
                    let idx = d.counts[2];
                    d.labels.insert((2, idx), format!("memory#{}", idx - d.imported[2]));
                    d.counts[2] += 1;
                    mems.push(limits_m(&m));
                }
            }
            Payload::GlobalSection(s) => {
                // labels first (initialisers may only refer to earlier globals, but keep it simple)
                let gs: Vec<_> = s.into_iter().collect::<std::result::Result<Vec<_>, _>>()?;
                for g in gs.iter() {
                    let idx = d.counts[3];
                    d.labels.insert((3, idx), format!("global#{}", idx - d.imported[3]));
                    d.counts[3] += 1;
                    let _ = g;
                }
                for g in gs.iter() {
                    globals.push(json!({"ty": glob_t(&g.ty), "init": const_expr(&d, &g.init_expr)?}));
                }
            }
            Payload::StartSection { func, .. } => start = Some(func),
            Payload::DataCountSection { count, .. } => data_count = Some(count),
            Payload::ElementSection(s) => {
                for e in s {
                    let e = e?;
                    let mode = match &e.kind {
                        ElementKind::Passive => json!("passive"),
                        ElementKind::Declared => json!("declared"),
                        ElementKind::Active { table_index, offset_expr } => json!({"active": {"table": label(&d, 1, table_index.unwrap_or(0)), "offset": const_expr(&d, offset_expr)?}}),
                    };
                    let items = match e.items {
                        ElementItems::Functions(r) => {
                            let mut v = vec![];
                            for f in r { v.push(format!("func {}", label(&d, 0, f?))); }
                            json!({"ty": "funcref", "items": v})
                        }
                        ElementItems::Expressions(ty, r) => {
                            let mut v = vec![];
                            for x in r { v.push(const_expr(&d, &x?)?); }
                            json!({"ty": format!("{:?}", ty), "items": v})
                        }
                    };
                    elems.push(json!({"mode": mode, "items": items}));
                }
            }
            Payload::DataSection(s) => {
                for x in s {
                    let x = x?;
                    let mode = match &x.kind {
                        DataKind::Passive => json!("passive"),
                        DataKind::Active { memory_index, offset_expr } => json!({"active": {"memory": label(&d, 2, *memory_index), "offset": const_expr(&d, offset_expr)?}}),
                    };
                    datas.push(json!({"mode": mode, "bytes": crate::ops::hex(x.data)}));
                }
            }
            Payload::CodeSectionEntry(b) => {
                let mut v = vec![];
                let mut r = b.get_operators_reader()?;
                while !r.eof() { v.push(format!("{:?}", r.read()?)); }
                bodies.push(v);
            }
            _ => {}
        }
    }
    // local functions: described as a multiset of (label-or-body, signature)
    let nimp = d.imported[0];
    let mut funcs: Vec<Value> = vec![];
    for (k, _t) in local_funcs.iter().enumerate() {
        let idx = nimp + k as u32;
        let lab = d.labels.get(&(0, idx)).cloned().unwrap_or_else(|| format!("body:{:?}", bodies.get(k)));
        d.labels.entry((0, idx)).or_insert(lab.clone());
        funcs.push(json!({"label": lab, "sig": d.func_sigs.get(idx as usize)}));
    }
    funcs.sort_by_key(|v| v.to_string());
    let mut ex: Vec<Value> = exports.iter().map(|(n, k, i)| json!({"name": n, "kind": k, "target": label(&d, *k, *i)})).collect();
    // export order is part of the structure
    let _ = &mut ex;
    let _ = data_count;
    Ok(json!({
        "imports": d.imports, "functions": funcs, "tables": tables, "memories": mems, "globals": globals,
        "exports": ex, "start": start.map(|s| label(&d, 0, s)), "elements": elems, "data": datas,
    }))
}

pub const CORPUS: &[(&str, &str)] = &[
    ("imports-all-kinds", r#"(module
        (type (func (param i32) (result i64)))
        (import "a" "f" (func (type 0)))
        (import "a" "t" (table 1 10 funcref))
        (import "b" "m" (memory 1 2))
        (import "b" "g" (global (mut i64)))
        (import "b" "gc" (global f32))
        (export "f" (func 0)) (export "t" (table 0)) (export "m" (memory 0)) (export "g" (global 0)) (export "gc" (global 1)))"#),
    ("import-memory64", r#"(module (import "env" "m" (memory i64 1 65536)) (export "m" (memory 0)))"#),
    ("import-memory-shared", r#"(module (import "env" "m" (memory 1 4 shared)))"#),
    ("import-table64", r#"(module (import "env" "t" (table i64 1 externref)) (export "t" (table 0)))"#),
    ("import-table-nomax-extern", r#"(module (import "env" "t" (table 3 externref)))"#),
    ("local-memories", r#"(module (memory 1) (memory i64 2 3) (memory 1 1 shared) (export "m1" (memory 1)) (export "m2" (memory 2)))"#),
    ("local-tables", r#"(module (table 1 funcref) (table 2 3 externref) (table i64 4 funcref) (export "t1" (table 1)) (export "t2" (table 2)))"#),
    ("globals-inits", r#"(module
        (import "e" "ig" (global i32)) (import "e" "ir" (global externref))
        (func $f)
        (global i32 (i32.const -5)) (global (mut i64) (i64.const 0x7fffffffffffffff)) (global f32 (f32.const nan:0x200001))
        (global f64 (f64.const -0)) (global v128 (v128.const i32x4 1 0x80000000 3 4))
        (global i32 (global.get 0)) (global funcref (ref.func $f)) (global funcref (ref.null func)) (global externref (ref.null extern))
        (global externref (global.get 1))
        (export "f" (func $f)) (export "g5" (global 7)) (export "g8" (global 10)))"#),
    ("start-local", r#"(module (func $a) (func $s (nop)) (start $s) (export "a" (func $a)) (export "s" (func $s)))"#),
    ("imported-and-local-memory", r#"(module (import "e" "im" (memory $im 1)) (memory $l 2) (memory $l2 3)
        (data (memory $l) (i32.const 0) "on-local") (data (memory $im) (i32.const 0) "on-imported") (data (memory $l2) (i32.const 4) "on-second-local")
        (export "l" (memory $l)) (export "l2" (memory $l2)) (export "im" (memory $im))
        (func (export "f") (result i32) (i32.load $l2 (i32.const 0))))"#),
    ("imported-and-local-table-global", r#"(module (import "e" "it" (table $it 1 funcref)) (import "e" "ig" (global $ig i32)) (table $l 2 funcref) (global $gl i32 (i32.const 5))
        (func $f) (elem (table $l) (i32.const 0) func $f) (elem (table $it) (global.get $ig) func $f $f)
        (export "l" (table $l)) (export "it" (table $it)) (export "gl" (global $gl)) (export "ig" (global $ig)))"#),
    ("empty-active-segments", r#"(module (table 4 funcref) (memory 1) (func $f)
        (elem (i32.const 1) func) (elem (i32.const 2) func $f) (elem (i32.const 0) func)
        (data (i32.const 0) "") (data (i32.const 3) "x") (export "f" (func $f)))"#),
    ("start-small-before-big", r#"(module (import "e" "i" (func $i)) (func $init (export "init") (call $i))
        (func $teardown (export "teardown") (call $i) (i32.const 1) (drop) (i32.const 2) (drop) (i32.const 3) (drop) (call $i))
        (func $mid (export "mid") (i32.const 1) (drop)) (start $init))"#),
    ("start-import", r#"(module (import "e" "s" (func $s)) (func $a) (start $s) (export "a" (func $a)))"#),
    ("exports-order", r#"(module (func $a) (func $b (i32.const 1) (drop)) (memory 1) (global i32 (i32.const 0)) (table 1 funcref)
        (export "z" (func $b)) (export "y" (global 0)) (export "x" (func $a)) (export "w" (table 0)) (export "v" (memory 0)) (export "z2" (func $b)))"#),
    ("data-segments", r#"(module
        (import "e" "base" (global i32)) (import "e" "base64" (global i64))
        (memory 1) (memory i64 1) (memory 1)
        (data (i32.const 8) "abc") (data (memory 1) (i64.const 16) "\00\01") (data "passive") (data (memory 2) (global.get 0) "gg")
        (data (memory 1) (global.get 1) "g64") (data (memory 0) (i32.const 0) "") (data "")
        (func (data.drop 2)))"#),
    ("elem-segments", r#"(module
        (import "e" "base" (global i32)) (import "e" "x" (global externref))
        (table 4 funcref) (table 4 funcref) (table 4 externref)
        (func $a) (func $b (i32.const 2) (drop)) (func $c (i32.const 3) (drop) (i32.const 3) (drop))
        (elem (i32.const 0) func $a $b)
        (elem (table 1) (i32.const 1) func $c)
        (elem (table 1) (global.get 0) funcref (ref.func $b) (ref.null func))
        (elem func $a $c)
        (elem funcref (ref.null func) (ref.func $a))
        (elem declare func $b)
        (elem (table 2) (i32.const 0) externref (ref.null extern) (global.get 1))
        (elem externref (global.get 1))
        (export "a" (func $a)) (export "b" (func $b)) (export "c" (func $c))
        (func (export "user") (table.init 0 3 (i32.const 0) (i32.const 0) (i32.const 1)) (elem.drop 4) (drop (ref.func $b))))"#),
    ("elem-table64", r#"(module (table i64 4 funcref) (func $a) (elem (table 0) (i64.const 1) func $a) (export "a" (func $a)))"#),
    ("func-signatures", r#"(module
        (type (func)) (type (func (param i32 i64) (result f32))) (type (func (result i32 i32)))
        (func $a (type 1) (f32.const 0)) (func $b (type 2) (i32.const 1) (i32.const 2)) (func $c (type 0)) (func $d (type 1) (f32.const 1))
        (export "a" (func $a)) (export "b" (func $b)) (export "c" (func $c)) (export "d" (func $d)))"#),
    ("import-global-mut-shared-kinds", r#"(module (import "e" "a" (global (mut i32))) (import "e" "b" (global (mut v128))) (import "e" "c" (global funcref)) (export "a" (global 0)) (export "c" (global 2)))"#),
    ("imports-interleaved-order", r#"(module
        (import "m" "g0" (global i32)) (import "m" "f0" (func)) (import "m" "t0" (table 1 funcref)) (import "m" "f1" (func (param i32)))
        (import "m" "mem" (memory 1)) (import "m" "g1" (global i64)) (import "n" "f0" (func (result i32)))
        (export "f1" (func 1)) (export "g1" (global 1)))"#),
    ("duplicate-import-names", r#"(module (import "m" "x" (func)) (import "m" "x" (func (param i32))) (import "m" "x" (global i32)) (export "a" (func 0)) (export "b" (func 1)))"#),
];

/// long signatures that differ in a single position (first / second / middle / last parameter or result), and signatures that differ only
/// in where the parameters end and the results begin: every function must keep its own type
pub fn generated_corpus() -> Vec<(String, String)> {
    let mut out = vec![];
    let tys = ["i32", "i64", "f32", "f64"];
    for len in [1usize, 2, 7, 8, 20, 21, 22, 23, 24, 32, 40, 64, 70] {
        let mut t = String::from("(module ");
        let mut n = 0;
        let mut sigs: Vec<(Vec<&str>, Vec<&str>)> = vec![(vec!["i32"; len], vec![])];
        let mut pos = vec![0, 1.min(len - 1), len / 2, len - 1];
        pos.dedup();
        for p in pos {
            for other in &tys[1..] {
                let mut ps = vec!["i32"; len];
                ps[p] = other;
                sigs.push((ps.clone(), vec![]));
                sigs.push((vec![], ps.clone()));
                sigs.push((vec!["i32"; 3], ps));
            }
        }
        for split in [0, 1, len / 2, len - 1, len] {
            sigs.push((vec!["i32"; split.min(len)], vec!["i32"; len - split.min(len)]));
        }
        sigs.sort();
        sigs.dedup();
        for (ps, rs) in sigs {
            t.push_str(&format!("(func (export \"f{n}\") (param {}) (result {}) unreachable)", ps.join(" "), rs.join(" ")));
            n += 1;
        }
        t.push(')');
        out.push((format!("signatures-of-length-{len}-differing-in-one-position"), t));
    }
    out
}

/// `entities [NAME...]`
pub fn entities(args: &[String]) -> Result<Value> {
    std::panic::set_hook(Box::new(|_| {}));
    let mut failures = vec![];
    let mut checked = 0;
    let generated = generated_corpus();
    let all: Vec<(&str, &str)> = CORPUS.iter().map(|(a, b)| (*a, *b)).chain(generated.iter().map(|(a, b)| (a.as_str(), b.as_str()))).collect();
    for (name, text) in &all {
        if !args.is_empty() && !args.iter().any(|a| a == name) {
            continue;
        }
        checked += 1;
        let wasm = match wat::parse_str(text) {
            Ok(w) => w,
            Err(e) => { failures.push(json!({"module": name, "corpus_error": format!("{e:#}")})); continue; }
        };
        let r = std::panic::catch_unwind(|| -> Result<Option<Value>> {
            let out = crate::ops::roundtrip(&wasm)?;
            let a = canonical(&wasm)?;
            let b = canonical(&out)?;
            if a != b {
                let mut diff = vec![];
                for k in ["imports", "functions", "tables", "memories", "globals", "exports", "start", "elements", "data"] {
                    if a[k] != b[k] { diff.push(json!({"section": k, "input": a[k], "output": b[k]})); }
                }
                return Ok(Some(json!(diff)));
            }
            Ok(None)
        });
        match r {
            Ok(Ok(None)) => {}
            Ok(Ok(Some(dv))) => failures.push(json!({"module": name, "wat": text, "diff": dv})),
            Ok(Err(e)) => failures.push(json!({"module": name, "wat": text, "error": format!("{e:#}")})),
            Err(_) => failures.push(json!({"module": name, "wat": text, "panic": true})),
        }
    }
    Ok(json!({"violated": !failures.is_empty(), "modules_checked": checked, "failures": failures}))
}
