//! `features`: C20 — the round trip never escalates the features a module needs.
//! For every corpus module and every post-MVP proposal the INPUT validates without, the OUTPUT must validate without it too;
//! plus structural checks for encodings the validator does not gate (data-count section, element-segment flags, multi-byte
//! table / memory immediates).
use anyhow::Result;
use serde_json::json;
use wasmparser::{Parser, Payload, Validator, WasmFeatures as F};
type JValue = serde_json::Value;

const PROPOSALS: &[(&str, F)] = &[
    ("mutable-global", F::MUTABLE_GLOBAL), ("saturating-float-to-int", F::SATURATING_FLOAT_TO_INT), ("sign-extension", F::SIGN_EXTENSION),
    ("multi-value", F::MULTI_VALUE), ("reference-types", F::REFERENCE_TYPES), ("bulk-memory", F::BULK_MEMORY), ("simd", F::SIMD),
    ("multi-memory", F::MULTI_MEMORY), ("memory64", F::MEMORY64), ("threads", F::THREADS), ("relaxed-simd", F::RELAXED_SIMD), ("tail-call", F::TAIL_CALL),
];

fn all() -> F { let mut f = F::empty(); f.insert(F::FLOATS); for (_, p) in PROPOSALS { f.insert(*p); } f }
fn ok(wasm: &[u8], f: F) -> bool { Validator::new_with_features(f).validate_all(wasm).is_ok() }

/// (has data-count section, element segment flag bytes, code-level multi-byte table/memory immediates)
fn structure(wasm: &[u8]) -> Result<(bool, Vec<u8>, Vec<String>)> {
    let mut dc = false;
    let mut flags = vec![];
    let mut wide = vec![];
    for p in Parser::new(0).parse_all(wasm) {
        match p? {
            Payload::DataCountSection { .. } => dc = true,
            Payload::ElementSection(s) => {
                // the flag is the first byte of each element segment
                let mut r = s.clone().into_iter_with_offsets();
                while let Some(item) = r.next() { let (off, _) = item?; flags.push(wasm[off]); }
            }
            Payload::CodeSectionEntry(b) => {
                let mut r = b.get_operators_reader()?;
                while !r.eof() {
                    let pos = r.original_position();
                    let op = r.read()?;
                    let end = r.original_position();
                    use wasmparser::Operator as O;
                    match op {
                        // MVP encodings: call_indirect's table byte and memory.size/grow's memory byte are the single byte 0x00
                        O::CallIndirect { table_index: 0, .. } | O::MemorySize { mem: 0, .. } | O::MemoryGrow { mem: 0, .. } => {
                            if wasm[end - 1] != 0 { wide.push(format!("{:?} at {pos}: reserved byte encoded as {:#x}", op, wasm[end - 1])); }
                        }
                        _ => {}
                    }
                }
            }
            _ => {}
        }
    }
    Ok((dc, flags, wide))
}

const EXTRA: &[(&str, &str)] = &[
    ("mvp-active-elem-offset", r#"(module (table 8 funcref) (func $a) (func $b) (elem (i32.const 3) $a $b) (elem (i32.const 0) $b)
        (type $s (func)) (func (export "f") (call_indirect (type $s) (i32.const 3))))"#),
    ("mvp-data-no-bulk", r#"(module (memory 1) (data (i32.const 0) "abc") (data (i32.const 16) "def") (func (export "f") (result i32) (i32.load (i32.const 0))))"#),
    ("mvp-data-only", r#"(module (memory (export "m") 1) (data (i32.const 0) "abc"))"#),
    // names are not a feature: an MVP module whose data / element segments, locals and functions are all named stays MVP
    ("mvp-named-data-and-elem", r#"(module (memory (export "m") 1) (table $t (export "t") 2 funcref) (func $named (param $p i32) (local $l i32) (local.set $l (local.get $p)))
        (data $greeting (i32.const 16) "hello") (data $other (i32.const 0) "x") (elem $e (i32.const 0) func $named) (export "f" (func $named)))"#),
    ("mvp-data-imports-only", r#"(module (import "e" "f" (func)) (memory (export "m") 1) (data (i32.const 0) "abc") (export "f" (func 0)))"#),
    ("mvp-block-results", r#"(module (type $r (func (result i32))) (type $r64 (func (result f64)))
        (func (export "f") (param i32) (result i32)
          (drop (loop (result f64) (f64.const 1)))
          (block (result i32) (loop (result i32) (if (result i32) (local.get 0) (then (i32.const 1)) (else (i32.const 2)))))))"#),
    ("mvp-memory-size-grow", r#"(module (memory 1) (func (export "f") (result i32) (drop (memory.grow (i32.const 1))) (memory.size)))"#),
    ("mvp-start-global-init", r#"(module (import "e" "g" (global $g i32)) (global $h i32 (global.get $g)) (memory 1) (data (global.get $g) "x")
        (func $s) (start $s) (func (export "f") (result i32) (global.get $h)))"#),
    ("bulk-only-passive-elem", r#"(module (table 4 funcref) (func $a) (func $b) (elem $p func $a $b)
        (func (export "f") (table.init $p (i32.const 0) (i32.const 0) (i32.const 2)) (elem.drop $p)))"#),
    ("bulk-only-passive-data", r#"(module (memory 1) (data $p "abc") (func (export "f") (memory.init $p (i32.const 0) (i32.const 0) (i32.const 3)) (data.drop $p))
        (func (export "g") (result i32) (i32.const 1)))"#),
    ("bulk-active-and-user", r#"(module (memory 1) (data (i32.const 0) "abc") (data $p "zz") (func (export "f") (data.drop $p)) (func (export "g") (result i32) (i32.load (i32.const 0))))"#),
    ("reftypes-only", r#"(module (table $t 2 externref) (func (export "f") (param externref) (table.set $t (i32.const 0) (local.get 0))))"#),
    ("multi-value-only", r#"(module (func (export "f") (result i32 i32) (block (result i32 i32) (i32.const 1) (i32.const 2))))"#),
    ("sign-ext-only", r#"(module (func (export "f") (param i32) (result i32) (i32.extend8_s (local.get 0))))"#),
    ("sat-only", r#"(module (func (export "f") (param f32) (result i32) (i32.trunc_sat_f32_s (local.get 0))))"#),
    ("mut-global-only", r#"(module (global (export "g") (mut i32) (i32.const 0)))"#),
];

pub fn features(args: &[String]) -> Result<JValue> {
    std::panic::set_hook(Box::new(|_| {}));
    let mut corpus: Vec<(String, String)> = EXTRA.iter().map(|(a, b)| (a.to_string(), b.to_string())).collect();
    for (n, t) in crate::entities::CORPUS { corpus.push((format!("entities/{n}"), t.to_string())); }
    for (n, t) in crate::misc::GC_CORPUS { corpus.push((format!("gc/{n}"), t.to_string())); }
    let mut failures = vec![];
    let mut checked = 0;
    for (name, text) in corpus {
        if !args.is_empty() && !args.iter().any(|a| *a == name) { continue; }
        let wasm = wat::parse_str(&text)?;
        for scenario in ["emit", "gc+emit", "emit with name section", "gc+emit with name section"] {
            let w2 = wasm.clone();
            let r = std::panic::catch_unwind(move || -> Result<Vec<u8>> {
                let mut config = walrus::ModuleConfig::new();
                config.generate_producers_section(false).generate_name_section(scenario.ends_with("with name section"));
                let mut m = config.parse(&w2)?;
                if scenario.starts_with("gc+emit") { walrus::passes::gc::run(&mut m); }
                Ok(m.emit_wasm())
            });
            let out = match r { Ok(Ok(o)) => o, Ok(Err(e)) => { failures.push(json!({"module": name, "scenario": scenario, "what": format!("error: {e:#}")})); continue } Err(_) => { failures.push(json!({"module": name, "scenario": scenario, "what": "panic"})); continue } };
            let mut fail = |what: String| failures.push(json!({"module": name, "scenario": scenario, "wat": text, "what": what}));
            if !ok(&out, all()) { fail("output does not validate even with every supported proposal on".into()); continue; }
            // one proposal off at a time, and everything the input does not need off together
            let mut minimal = all();
            for (pn, p) in PROPOSALS {
                checked += 1;
                let mut f = all(); f.remove(*p);
                if ok(&wasm, f) { minimal.remove(*p); if !ok(&out, f) { fail(format!("input validates without {pn}, output does not: {}", Validator::new_with_features(f).validate_all(&out).err().map(|e| e.to_string()).unwrap_or_default())); } }
            }
            if ok(&wasm, minimal) && !ok(&out, minimal) { fail(format!("input validates under its minimal feature set, output does not: {}", Validator::new_with_features(minimal).validate_all(&out).err().map(|e| e.to_string()).unwrap_or_default())); }
            let (dc_in, _flags_in, _) = structure(&wasm)?;
            let (dc_out, flags_out, wide) = structure(&out)?;
            let mvp = { let mut f = F::empty(); f.insert(F::FLOATS); f };
            let needs_bulk = { let mut f = all(); f.remove(F::BULK_MEMORY); !ok(&wasm, f) };
            if dc_out && !dc_in && !needs_bulk { fail("a data-count section appears although the module does not need bulk-memory".into()); }
            if needs_bulk && dc_in && !dc_out && scenario.starts_with("emit") { fail("the data-count section the module needs was dropped".into()); }
            if ok(&wasm, mvp) {
                if let Some(fl) = flags_out.iter().find(|f| **f != 0) { fail(format!("MVP input, but an element segment is emitted with flag {fl} (a post-MVP encoding)")); }
            }
            if !wide.is_empty() { fail(format!("multi-byte reserved immediates: {:?}", wide)); }
        }
    }
    // operator by operator: a module that uses ONE operator (every operator walrus accepts, several immediates each) needs no proposal
    // after the round trip that it did not need before -- an operator must come back as itself, not as a sibling from a later proposal
    let mut op_modules = 0;
    if args.is_empty() {
        for (name, _proposal, instrs) in crate::gen_ops::samples() {
            for i in instrs {
                let operands = match crate::ops::find_operands(&i) { Some(o) => o, None => continue };
                let wasm = crate::ops::skeleton(&operands, &i);
                if !ok(&wasm, all()) { continue; }
                op_modules += 1;
                let w2 = wasm.clone();
                let out = match std::panic::catch_unwind(move || crate::ops::roundtrip(&w2)) { Ok(Ok(o)) => o, _ => { failures.push(json!({"operator": name, "what": "round trip failed or panicked", "input_wasm_hex": crate::ops::hex(&wasm)})); continue } };
                for (pn, p) in PROPOSALS {
                    checked += 1;
                    let mut f = all(); f.remove(*p);
                    if ok(&wasm, f) && !ok(&out, f) {
                        failures.push(json!({"operator": name, "instruction": format!("{:?}", i), "input_wasm_hex": crate::ops::hex(&wasm),
                            "what": format!("a module using this operator validates without {pn}, its round trip does not: {}", Validator::new_with_features(f).validate_all(&out).err().map(|e| e.to_string()).unwrap_or_default())}));
                    }
                }
            }
        }
    }
    failures.truncate(10);
    Ok(json!({"violated": !failures.is_empty(), "feature_checks": checked, "single_operator_modules": op_modules, "failures": failures}))
}
