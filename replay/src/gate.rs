//! `gate`: C05 — parsing is a total, sound and complete validation gate.
//! walrus's verdict on a byte string is compared with an independent wasmparser Validator under walrus's feature set, on the
//! corpus, on truncations and byte mutations of the corpus, on deep nesting and on hand-written unsupported constructs.
use anyhow::Result;
use serde_json::json;
use wasmparser::{Validator, WasmFeatures as F};
type JValue = serde_json::Value;

fn walrus_features(only_stable: bool) -> F {
    let mut f = F::empty();
    for x in [F::FLOATS, F::MUTABLE_GLOBAL, F::SATURATING_FLOAT_TO_INT, F::SIGN_EXTENSION, F::MULTI_VALUE, F::REFERENCE_TYPES, F::BULK_MEMORY, F::SIMD, F::RELAXED_SIMD, F::TAIL_CALL] { f.insert(x); }
    if !only_stable { for x in [F::MULTI_MEMORY, F::MEMORY64, F::THREADS] { f.insert(x); } }
    f
}
fn valid(bytes: &[u8], only_stable: bool) -> bool { Validator::new_with_features(walrus_features(only_stable)).validate_all(bytes).is_ok() }

#[derive(PartialEq, Debug, Clone, Copy)]
enum Verdict { Ok, Err, Panic }
fn parse(bytes: &[u8], only_stable: bool) -> Verdict {
    let b = bytes.to_vec();
    match std::panic::catch_unwind(move || { let mut c = walrus::ModuleConfig::new(); c.only_stable_features(only_stable); c.parse(&b).is_ok() }) {
        Ok(true) => Verdict::Ok, Ok(false) => Verdict::Err, Err(_) => Verdict::Panic,
    }
}

const EXTRA: &[(&str, &str)] = &[
    ("multi-memory", r#"(module (memory 1) (memory 1) (func (export "f") (result i32) (i32.load 1 (i32.const 0))))"#),
    ("memory64", r#"(module (memory i64 1) (func (export "f") (result i32) (i32.load (i64.const 0))))"#),
    ("memory64-global-offset", r#"(module (import "e" "g" (global $g i64)) (memory i64 1) (data (global.get $g) "x"))"#),
    ("threads", r#"(module (memory 1 1 shared) (func (export "f") (result i32) (i32.atomic.load (i32.const 0))))"#),
    ("tail-call", r#"(module (func $g (result i32) (i32.const 1)) (func (export "f") (result i32) (return_call $g)))"#),
    ("simd", r#"(module (func (export "f") (result v128) (v128.const i32x4 1 2 3 4)))"#),
    ("start-and-elem", r#"(module (table 2 funcref) (func $s) (elem (i32.const 0) $s) (start $s))"#),
];

/// binaries that need something walrus does not support: must be rejected with an error, never a panic
fn unsupported() -> Vec<(&'static str, Vec<u8>)> {
    let hdr = b"\0asm\x01\0\0\0".to_vec();
    let mut tag = hdr.clone(); tag.extend_from_slice(&[0x01, 0x05, 0x01, 0x60, 0x01, 0x7f, 0x00]); tag.extend_from_slice(&[0x0d, 0x03, 0x01, 0x00, 0x00]);
    let mut tag_import = hdr.clone(); tag_import.extend_from_slice(&[0x01, 0x04, 0x01, 0x60, 0x00, 0x00]); tag_import.extend_from_slice(&[0x02, 0x08, 0x01, 0x01, b'e', 0x01, b't', 0x04, 0x00, 0x00]);
    let mut unknown = hdr.clone(); unknown.extend_from_slice(&[0x0e, 0x01, 0x00]);
    let mut component = b"\0asm\x0d\0\x01\0".to_vec(); component.extend_from_slice(&[]);
    vec![("tag-section", tag), ("tag-import", tag_import), ("unknown-section-id", unknown), ("component-header", component)]
}

/// hand-built binaries around the data-count section (wasm-encoder writes the sections exactly as given): compared with the validator
fn data_count_cases() -> Vec<(&'static str, Vec<u8>)> {
    use wasm_encoder::*;
    let base = |dc_before: Option<u32>, dc_twice: bool, dc_after_code: Option<u32>, nseg: usize, use_init: bool| -> Vec<u8> {
        let mut m = Module::new();
        let mut t = TypeSection::new(); t.function([], []); m.section(&t);
        let mut f = FunctionSection::new(); f.function(0); m.section(&f);
        let mut mem = MemorySection::new(); mem.memory(MemoryType { minimum: 1, maximum: None, memory64: false, shared: false, page_size_log2: None }); m.section(&mem);
        if let Some(c) = dc_before { m.section(&DataCountSection { count: c }); if dc_twice { m.section(&DataCountSection { count: c }); } }
        let mut c = CodeSection::new();
        let mut body = Function::new([]);
        if use_init { body.instruction(&Instruction::DataDrop(0)); }
        body.instruction(&Instruction::End);
        c.function(&body); m.section(&c);
        if let Some(cn) = dc_after_code { m.section(&DataCountSection { count: cn }); }
        if nseg > 0 { let mut d = DataSection::new(); for _ in 0..nseg { d.active(0, &ConstExpr::i32_const(0), [1u8]); } m.section(&d); }
        m.finish()
    };
    vec![
        ("data-count 0, one segment", base(Some(0), false, None, 1, false)),
        ("data-count 0 twice", base(Some(0), true, None, 0, false)),
        ("data-count 0 after code", base(None, false, Some(0), 0, false)),
        ("data-count 0, no segments (valid)", base(Some(0), false, None, 0, false)),
        ("data-count 1, one segment (valid)", base(Some(1), false, None, 1, true)),
        ("data-count 2, one segment", base(Some(2), false, None, 1, false)),
        ("data.drop without data-count", base(None, false, None, 1, true)),
    ]
}

/// bodies whose size field covers bytes AFTER the function's closing `end` (operators, a second `end`, stray bytes)
fn after_end_cases() -> Vec<(String, Vec<u8>)> {
    let mut out = vec![];
    let tails: &[(&str, &[u8])] = &[
        ("nop", &[0x01]), ("i32.const 7; drop; end", &[0x41, 0x07, 0x1a, 0x0b]), ("end", &[0x0b]), ("i32.const 7", &[0x41, 0x07]), ("drop", &[0x1a]),
        ("unreachable", &[0x00]), ("block; end", &[0x02, 0x40, 0x0b]), ("br 0", &[0x0c, 0x00]), ("stray 0xff 0xff", &[0xff, 0xff]), ("call 0", &[0x10, 0x00]),
        ("local.get 0", &[0x20, 0x00]), ("return", &[0x0f]), ("else", &[0x05]),
    ];
    for (tn, tail) in tails {
        for (bn, body) in [("empty body", &[][..]), ("nop", &[0x01][..]), ("unreachable", &[0x00][..]), ("block end", &[0x02, 0x40, 0x0b][..])] {
            let mut code: Vec<u8> = vec![0x00];           // no locals
            code.extend_from_slice(body);
            code.push(0x0b);                              // the function's closing end
            code.extend_from_slice(tail);
            let mut m: Vec<u8> = vec![0x00, 0x61, 0x73, 0x6d, 0x01, 0x00, 0x00, 0x00];
            m.extend_from_slice(&[0x01, 0x04, 0x01, 0x60, 0x00, 0x00]);          // type section: () -> ()
            m.extend_from_slice(&[0x03, 0x02, 0x01, 0x00]);                      // function section: one function of type 0
            m.push(0x0a); m.push((code.len() + 2) as u8); m.push(0x01); m.push(code.len() as u8);
            m.extend_from_slice(&code);
            out.push((format!("body `{bn}` + closing end, then `{tn}` inside the body's size"), m));
        }
    }
    out
}

/// modules that are wrong as a whole rather than in one byte: sections repeated or out of order, counts that disagree, indices out of range
fn structural_cases() -> Vec<(String, Vec<u8>)> {
    fn sec(id: u8, payload: &[u8]) -> Vec<u8> { let mut v = vec![id]; leb(payload.len() as u32, &mut v); v.extend_from_slice(payload); v }
    fn leb(mut n: u32, out: &mut Vec<u8>) { loop { let b = (n & 0x7f) as u8; n >>= 7; if n == 0 { out.push(b); break } else { out.push(b | 0x80) } } }
    let header: Vec<u8> = vec![0x00, 0x61, 0x73, 0x6d, 0x01, 0x00, 0x00, 0x00];
    let types = sec(1, &[0x01, 0x60, 0x00, 0x00]);                 // one type: () -> ()
    let funcs1 = sec(3, &[0x01, 0x00]);
    let funcs2 = sec(3, &[0x02, 0x00, 0x00]);
    let body = [0x02u8, 0x00, 0x0b];                               // size 2: no locals, end
    let code1 = { let mut p = vec![0x01]; p.extend_from_slice(&body); sec(10, &p) };
    let code2 = { let mut p = vec![0x02]; p.extend_from_slice(&body); p.extend_from_slice(&body); sec(10, &p) };
    let mem = sec(5, &[0x01, 0x00, 0x01]);
    let table = sec(4, &[0x01, 0x70, 0x00, 0x01]);
    let many_locals = { let mut p = vec![0x01, 0x08, 0x01, 0xff, 0xff, 0xff, 0xff, 0x0f, 0x7f, 0x0b]; p.truncate(10); sec(10, &p) };
    let cat = |parts: &[&Vec<u8>]| -> Vec<u8> { let mut m = header.clone(); for p in parts { m.extend_from_slice(p); } m };
    vec![
        ("two functions declared, one body".to_string(), cat(&[&types, &funcs2, &code1])),
        ("one function declared, two bodies".to_string(), cat(&[&types, &funcs1, &code2])),
        ("function section without code section".to_string(), cat(&[&types, &funcs1])),
        ("code section without function section".to_string(), cat(&[&types, &code1])),
        ("type section twice".to_string(), cat(&[&types, &types, &funcs1, &code1])),
        ("code section twice".to_string(), cat(&[&types, &funcs1, &code1, &code1])),
        ("memory section after code".to_string(), cat(&[&types, &funcs1, &code1, &mem])),
        ("function section before type section".to_string(), cat(&[&funcs1, &types, &code1])),
        ("function type index out of range".to_string(), cat(&[&types, &sec(3, &[0x01, 0x05]), &code1])),
        ("start index out of range".to_string(), cat(&[&types, &funcs1, &sec(8, &[0x07]), &code1])),
        ("start function with a parameter".to_string(), cat(&[&sec(1, &[0x01, 0x60, 0x01, 0x7f, 0x00]), &funcs1, &sec(8, &[0x00]), &code1])),
        ("export of a function that does not exist".to_string(), cat(&[&types, &funcs1, &sec(7, &[0x01, 0x01, b'f', 0x00, 0x09]), &code1])),
        ("export of a memory that does not exist".to_string(), cat(&[&types, &funcs1, &sec(7, &[0x01, 0x01, b'm', 0x02, 0x00]), &code1])),
        ("two exports with the same name".to_string(), cat(&[&types, &funcs1, &sec(7, &[0x02, 0x01, b'f', 0x00, 0x00, 0x01, b'f', 0x00, 0x00]), &code1])),
        ("element segment naming a function out of range".to_string(), cat(&[&types, &funcs1, &table, &sec(9, &[0x01, 0x00, 0x41, 0x00, 0x0b, 0x01, 0x04]), &code1])),
        ("element segment for a table that does not exist".to_string(), cat(&[&types, &funcs1, &sec(9, &[0x01, 0x00, 0x41, 0x00, 0x0b, 0x01, 0x00]), &code1])),
        ("data segment for a memory that does not exist".to_string(), cat(&[&types, &funcs1, &code1, &sec(11, &[0x01, 0x00, 0x41, 0x00, 0x0b, 0x01, 0x2a])])),
        ("global initialised from a later global".to_string(), cat(&[&sec(6, &[0x02, 0x7f, 0x00, 0x23, 0x01, 0x0b, 0x7f, 0x00, 0x41, 0x01, 0x0b])])),
        ("global initialiser of the wrong type".to_string(), cat(&[&sec(6, &[0x01, 0x7f, 0x00, 0x42, 0x01, 0x0b])])),
        ("body declaring 4 billion locals".to_string(), cat(&[&types, &funcs1, &many_locals])),
        ("body size larger than the section".to_string(), cat(&[&types, &funcs1, &sec(10, &[0x01, 0x7f, 0x00, 0x0b])])),
        ("body size zero".to_string(), cat(&[&types, &funcs1, &sec(10, &[0x01, 0x00])])),
        ("two memories without multi-memory? (valid when enabled)".to_string(), cat(&[&sec(5, &[0x02, 0x00, 0x01, 0x00, 0x01])])),
        ("memory minimum above maximum".to_string(), cat(&[&sec(5, &[0x01, 0x01, 0x05, 0x01])])),
        ("import of a function type out of range".to_string(), cat(&[&types, &sec(2, &[0x01, 0x01, b'm', 0x01, b'f', 0x00, 0x03])])),
        ("section size runs past the end of the module".to_string(), cat(&[&vec![0x01, 0x7f, 0x01, 0x60, 0x00, 0x00]])),
        ("section id 12 with a payload".to_string(), cat(&[&types, &sec(12, &[0x01])])),
        ("custom section with a name longer than the section".to_string(), cat(&[&sec(0, &[0x09, b'a'])])),
        ("custom section with invalid utf-8 in its name".to_string(), cat(&[&sec(0, &[0x02, 0xff, 0xfe, 0x00])])),
        ("name section with garbage (must be ignored or rejected, not panic)".to_string(), cat(&[&types, &funcs1, &code1, &sec(0, &[0x04, b'n', b'a', b'm', b'e', 0x01, 0x7f, 0x00])])),
        ("name section naming a function out of range".to_string(), cat(&[&types, &funcs1, &code1, &sec(0, &[0x04, b'n', b'a', b'm', b'e', 0x01, 0x04, 0x01, 0x09, 0x01, b'x'])])),
        ("name section naming a local of a function out of range".to_string(), cat(&[&types, &funcs1, &code1, &sec(0, &[0x04, b'n', b'a', b'm', b'e', 0x02, 0x06, 0x01, 0x07, 0x01, 0x00, 0x01, b'x'])])),
        ("producers section with garbage".to_string(), cat(&[&types, &funcs1, &code1, &sec(0, &[0x09, b'p', b'r', b'o', b'd', b'u', b'c', b'e', b'r', b's', 0x05, 0xff])])),
    ]
}

/// encodings whose very decoding depends on the feature set (the reader must run under the configured features, not only the validator),
/// and declarations that declare nothing but still name a type (a locals group of count 0): one memory, one table, one function whose
/// body is given byte by byte
fn encoding_cases() -> Vec<(String, Vec<u8>)> {
    fn leb(mut n: u32, out: &mut Vec<u8>) { loop { let b = (n & 0x7f) as u8; n >>= 7; if n == 0 { out.push(b); break } else { out.push(b | 0x80) } } }
    fn sec(id: u8, payload: &[u8]) -> Vec<u8> { let mut v = vec![id]; leb(payload.len() as u32, &mut v); v.extend_from_slice(payload); v }
    let header: Vec<u8> = vec![0x00, 0x61, 0x73, 0x6d, 0x01, 0x00, 0x00, 0x00];
    let module = |mem: &[u8], locals: &[u8], code: &[u8], with_data: bool| -> Vec<u8> {
        let mut m = header.clone();
        m.extend(sec(1, &[0x01, 0x60, 0x00, 0x00]));
        m.extend(sec(3, &[0x01, 0x00]));
        m.extend(sec(4, &[0x01, 0x70, 0x00, 0x01]));
        let mut ms = vec![0x01]; ms.extend_from_slice(mem); m.extend(sec(5, &ms));
        if with_data { m.extend(sec(12, &[0x01])); }
        let mut body: Vec<u8> = locals.to_vec(); body.extend_from_slice(code);
        let mut c = vec![0x01]; leb(body.len() as u32, &mut c); c.extend(body); m.extend(sec(10, &c));
        if with_data { m.extend(sec(11, &[0x01, 0x01, 0x01, 0x2a])); }
        m
    };
    let plain_mem: &[u8] = &[0x00, 0x01];
    let no_locals: &[u8] = &[0x00];
    let mut v: Vec<(String, Vec<u8>)> = vec![];
    let mut add = |n: &str, b: Vec<u8>| v.push((n.to_string(), b));
    // memory immediates in their multi-memory encoding although they name memory 0
    add("i32.load with the memory-index bit set in its alignment, memory 0", module(plain_mem, no_locals, &[0x41, 0x00, 0x28, 0x42, 0x00, 0x00, 0x1a, 0x0b], false));
    add("i32.store with the memory-index bit set, memory 0", module(plain_mem, no_locals, &[0x41, 0x00, 0x41, 0x00, 0x36, 0x42, 0x00, 0x00, 0x0b], false));
    add("i32.load with a plain alignment (control: valid)", module(plain_mem, no_locals, &[0x41, 0x00, 0x28, 0x02, 0x00, 0x1a, 0x0b], false));
    add("memory.size with an over-long zero index", module(plain_mem, no_locals, &[0x3f, 0x80, 0x00, 0x1a, 0x0b], false));
    add("memory.grow with an over-long zero index", module(plain_mem, no_locals, &[0x41, 0x00, 0x40, 0x80, 0x00, 0x1a, 0x0b], false));
    add("memory.size with a one-byte zero index (control: valid)", module(plain_mem, no_locals, &[0x3f, 0x00, 0x1a, 0x0b], false));
    add("memory.copy with an over-long destination index", module(plain_mem, no_locals, &[0x41, 0x00, 0x41, 0x00, 0x41, 0x00, 0xfc, 0x0a, 0x80, 0x00, 0x00, 0x0b], false));
    add("memory.copy with an over-long source index", module(plain_mem, no_locals, &[0x41, 0x00, 0x41, 0x00, 0x41, 0x00, 0xfc, 0x0a, 0x00, 0x80, 0x00, 0x0b], false));
    add("memory.fill with an over-long index", module(plain_mem, no_locals, &[0x41, 0x00, 0x41, 0x00, 0x41, 0x00, 0xfc, 0x0b, 0x80, 0x00, 0x0b], false));
    add("memory.init with an over-long memory index", module(plain_mem, no_locals, &[0x41, 0x00, 0x41, 0x00, 0x41, 0x00, 0xfc, 0x08, 0x00, 0x80, 0x00, 0x0b], true));
    add("memory.init with one-byte indices (control: valid)", module(plain_mem, no_locals, &[0x41, 0x00, 0x41, 0x00, 0x41, 0x00, 0xfc, 0x08, 0x00, 0x00, 0x0b], true));
    add("call_indirect with an over-long table index", module(plain_mem, no_locals, &[0x41, 0x00, 0x11, 0x00, 0x80, 0x00, 0x0b], false));
    // limits flags of proposals
    add("memory limits with the 64-bit flag", module(&[0x04, 0x01], no_locals, &[0x0b], false));
    add("memory limits with the shared flag and a maximum", module(&[0x03, 0x01, 0x01], no_locals, &[0x0b], false));
    add("memory limits with the shared flag and no maximum", module(&[0x02, 0x01], no_locals, &[0x0b], false));
    add("memory limits with the custom-page-size flag", module(&[0x08, 0x01, 0x00], no_locals, &[0x0b], false));
    add("memory limits with an unknown flag", module(&[0x10, 0x01], no_locals, &[0x0b], false));
    // locals groups that declare nothing (count 0) but name a type: the type is checked all the same
    for (n, ty) in [("i32", vec![0x7fu8]), ("v128", vec![0x7b]), ("funcref", vec![0x70]), ("externref", vec![0x6f]), ("exnref", vec![0x69]), ("anyref", vec![0x6e]), ("eqref", vec![0x6d]),
                    ("i31ref", vec![0x6c]), ("(ref null 0)", vec![0x63, 0x00]), ("(ref func)", vec![0x64, 0x70]), ("(ref null func)", vec![0x63, 0x70]), ("an undefined type byte", vec![0x50]), ("the empty block type byte", vec![0x40])] {
        for count in [0u8, 1] {
            let mut locals = vec![0x01, count]; locals.extend_from_slice(&ty);
            add(&format!("locals group: {count} x {n}"), module(plain_mem, &locals, &[0x0b], false));
        }
        let mut locals = vec![0x02, 0x01, 0x7f, 0x00]; locals.extend_from_slice(&ty);
        add(&format!("locals groups: 1 x i32, then 0 x {n}"), module(plain_mem, &locals, &[0x0b], false));
    }
    v
}

fn nested(depth: usize) -> Vec<u8> {
    use wasm_encoder::*;
    let mut m = Module::new();
    let mut t = TypeSection::new(); t.function([], []); m.section(&t);
    let mut f = FunctionSection::new(); f.function(0); m.section(&f);
    let mut c = CodeSection::new();
    let mut body = Function::new([]);
    for _ in 0..depth { body.instruction(&Instruction::Block(BlockType::Empty)); }
    for _ in 0..depth { body.instruction(&Instruction::End); }
    body.instruction(&Instruction::End);
    c.function(&body); m.section(&c);
    m.finish()
}

pub fn gate(args: &[String]) -> Result<JValue> {
    std::panic::set_hook(Box::new(|_| {}));
    let mut corpus: Vec<(String, Vec<u8>)> = vec![];
    for (n, t) in EXTRA { corpus.push((format!("gate/{n}"), wat::parse_str(t)?)); }
    for (n, t) in crate::entities::CORPUS { corpus.push((format!("entities/{n}"), wat::parse_str(t)?)); }
    for (n, t) in crate::misc::GC_CORPUS { corpus.push((format!("gc/{n}"), wat::parse_str(t)?)); }
    let mut failures = vec![];
    let (mut checked, mut agree_ok, mut agree_err) = (0usize, 0usize, 0usize);
    let mut judge = |what: &str, name: &str, bytes: &[u8], failures: &mut Vec<JValue>| {
        for only_stable in [false, true] {
            checked += 1;
            let v = valid(bytes, only_stable);
            let p = parse(bytes, only_stable);
            let bad = match (v, p) {
                (_, Verdict::Panic) => Some("parse panicked"),
                (false, Verdict::Ok) => Some("parse accepted bytes the validator rejects under walrus's feature set"),
                (true, Verdict::Err) => Some("parse rejected a module that is valid under walrus's feature set"),
                (true, Verdict::Ok) => { agree_ok += 1; None }
                (false, Verdict::Err) => { agree_err += 1; None }
            };
            if let Some(b) = bad {
                if failures.len() < 12 { failures.push(json!({"input": name, "mutation": what, "only_stable_features": only_stable, "what": b, "input_wasm_hex_gate": crate::ops::hex(bytes)})); }
                else { failures.push(json!({"input": name, "mutation": what, "only_stable_features": only_stable, "what": b})); }
            }
        }
    };
    let limit: usize = args.first().and_then(|s| s.parse().ok()).unwrap_or(400);
    for (name, wasm) in &corpus {
        judge("none", name, wasm, &mut failures);
        // truncations
        for k in 0..wasm.len().min(limit) { judge(&format!("truncated to {k} bytes"), name, &wasm[..k], &mut failures); }
        for k in (wasm.len().saturating_sub(limit / 2))..wasm.len() { judge(&format!("truncated to {k} bytes"), name, &wasm[..k], &mut failures); }
        // single-byte mutations
        for pos in 8..wasm.len().min(8 + limit) {
            for v in [0x00u8, 0x7f, 0xff, wasm[pos] ^ 0x01, wasm[pos].wrapping_add(1), wasm[pos] ^ 0x80] {
                if v == wasm[pos] { continue; }
                let mut m = wasm.clone(); m[pos] = v;
                judge(&format!("byte {pos} set to {v:#x}"), name, &m, &mut failures);
            }
        }
    }
    for (name, bytes) in data_count_cases() { judge("hand-built", name, &bytes, &mut failures); }
    for (name, bytes) in after_end_cases() { judge("hand-built", &name, &bytes, &mut failures); }
    for (name, bytes) in structural_cases() { judge("hand-built", &name, &bytes, &mut failures); }
    for (name, bytes) in encoding_cases() { judge("hand-built", &name, &bytes, &mut failures); }
    for (name, bytes) in unsupported() {
        for only_stable in [false, true] {
            checked += 1;
            match parse(&bytes, only_stable) { Verdict::Err => {} v => failures.push(json!({"input": name, "only_stable_features": only_stable, "what": format!("expected an error, got {v:?}"), "input_wasm_hex_gate": crate::ops::hex(&bytes)})) }
        }
    }
    // exactly the three unstable proposals are what only_stable_features rejects
    for (n, needs) in [("gate/multi-memory", true), ("gate/memory64", true), ("gate/threads", true), ("gate/tail-call", false), ("gate/simd", false)] {
        let w = &corpus.iter().find(|(name, _)| name == n).unwrap().1;
        let p = parse(w, true);
        if (p == Verdict::Err) != needs { failures.push(json!({"input": n, "only_stable_features": true, "what": format!("expected {} under only_stable_features, got {p:?}", if needs { "rejection" } else { "acceptance" })})); }
    }
    // deep nesting: a verdict, not a crash (a stack overflow aborts this process; the caller reports that as the failure)
    for depth in [1_000usize, 20_000, 200_000] {
        checked += 1;
        let w = nested(depth);
        let v = valid(&w, false);
        let p = parse(&w, false);
        if p == Verdict::Panic || (v && p == Verdict::Err) || (!v && p == Verdict::Ok) { failures.push(json!({"input": format!("{depth} nested blocks"), "what": format!("validator says {v}, parse says {p:?}")})); }
    }
    let n = failures.len();
    failures.truncate(12);
    Ok(json!({"violated": n > 0, "inputs_checked": checked, "both_accept": agree_ok, "both_reject": agree_err, "n_failures": n, "failures": failures}))
}
