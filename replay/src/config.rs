//! C14 battery: configuration switches, producers merge, DWARF carry-over, parse callback.
use anyhow::Result;
use serde_json::{json, Value};
use std::sync::atomic::{AtomicUsize, Ordering};
use std::sync::Arc;

fn sections(wasm: &[u8]) -> Result<Vec<String>> {
    let mut v = vec![];
    for p in wasmparser::Parser::new(0).parse_all(wasm) {
        match p? {
            wasmparser::Payload::CustomSection(c) => v.push(format!("custom:{}", c.name())),
            wasmparser::Payload::TypeSection(_) => v.push("type".into()),
            wasmparser::Payload::FunctionSection(_) => v.push("function".into()),
            wasmparser::Payload::ExportSection(_) => v.push("export".into()),
            wasmparser::Payload::CodeSectionStart { .. } => v.push("code".into()),
            wasmparser::Payload::MemorySection(_) => v.push("memory".into()),
            _ => {}
        }
    }
    Ok(v)
}

fn producers(wasm: &[u8]) -> Result<Vec<(String, Vec<(String, String)>)>> {
    let mut out = vec![];
    for p in wasmparser::Parser::new(0).parse_all(wasm) {
        if let wasmparser::Payload::CustomSection(c) = p? {
            if c.name() == "producers" {
                let r = wasmparser::ProducersSectionReader::new(wasmparser::BinaryReader::new(c.data(), c.data_offset(), wasmparser::WasmFeatures::all()))?;
                for f in r {
                    let f = f?;
                    let mut vals = vec![];
                    for v in f.values { let v = v?; vals.push((v.name.to_string(), v.version.to_string())); }
                    out.push((f.name.to_string(), vals));
                }
            }
        }
    }
    Ok(out)
}

fn input(with_names: bool, with_producers: Option<&[(&str, &[(&str, &str)])]>, with_dwarf: bool, with_other: bool) -> Vec<u8> {
    use wasm_encoder::*;
    let mut m = Module::new();
    let mut types = TypeSection::new();
    types.function([], []);
    m.section(&types);
    let mut funcs = FunctionSection::new();
    funcs.function(0);
    m.section(&funcs);
    let mut exports = ExportSection::new();
    exports.export("f", ExportKind::Func, 0);
    m.section(&exports);
    let mut code = CodeSection::new();
    let mut f = Function::new([]);
    f.instruction(&Instruction::End);
    code.function(&f);
    m.section(&code);
    if with_other { m.section(&CustomSection { name: "other".into(), data: (&[1u8, 2, 3][..]).into() }); }
    if with_names {
        let mut n = NameSection::new();
        n.module("mod");
        let mut fm = NameMap::new();
        fm.append(0, "the_function");
        n.functions(&fm);
        m.section(&n);
    }
    if let Some(fields) = with_producers {
        let mut p = ProducersSection::new();
        for (fname, vals) in fields {
            let mut pf = ProducersField::new();
            for (a, b) in vals.iter() { pf.value(a, b); }
            p.field(fname, &pf);
        }
        m.section(&p);
    }
    let wasm = m.finish();
    if with_dwarf {
        // real DWARF (one subprogram + one line row per instruction of `f`), synthesized with gimli::write
        let l = crate::dwarf::layout(&wasm).expect("layout");
        let mut wasm = crate::dwarf::attach(wasm, &l, 4, false, false).expect("attach").0;
        // ... and DWARF sections that walrus does not convert: accelerator tables and the like, which index the sections it rewrites or drops
        for n in STALE_IF_KEPT { wasm.push(0); wasm.push((1 + n.len() + 4) as u8); wasm.push(n.len() as u8); wasm.extend_from_slice(n.as_bytes()); wasm.extend_from_slice(&[0x28, 0, 0, 0]); }
        return wasm;
    }
    wasm
}

/// DWARF sections that only make sense next to the very `.debug_info` / `.debug_str` they were built for
const STALE_IF_KEPT: &[&str] = &[".debug_names", ".debug_gnu_pubnames", ".debug_gnu_pubtypes", ".debug_pubnames", ".debug_sup", ".debug_aranges", ".debug_macinfo.dwo", ".debug_info.dwo"];

pub fn config(_args: &[String]) -> Result<Value> {
    std::panic::set_hook(Box::new(|_| {}));
    let mut failures = vec![];
    let mut checked = 0;
    let prod_a: &[(&str, &[(&str, &str)])] = &[("language", &[("Rust", "1.70"), ("C", "11")]), ("processed-by", &[("clang", "15"), ("walrus", "0.0.1")]), ("sdk", &[("emsdk", "3")])];
    let prod_b: &[(&str, &[(&str, &str)])] = &[("processed-by", &[("rustc", "1.0")])];
    for with_names in [false, true] {
        for (pi, prods) in [None, Some(prod_a), Some(prod_b)].iter().enumerate() {
            for gen_names in [false, true] {
                for gen_prod in [false, true] {
                    for gen_dwarf in [false, true] {
                        for with_dwarf in [false, true] {
                          for pct in [false, true] {
                            checked += 1;
                            let wasm = input(with_names, *prods, with_dwarf, true);
                            let calls = Arc::new(AtomicUsize::new(0));
                            let c2 = calls.clone();
                            let w2 = wasm.clone();
                            let prods2 = *prods;
                            let r = std::panic::catch_unwind(move || -> Result<Option<String>> {
                                let mut cfg = walrus::ModuleConfig::new();
                                // (preserve_code_transform is a switch of its own; generate_dwarf(true) turns it on as well)
                                cfg.generate_name_section(gen_names).generate_producers_section(gen_prod).preserve_code_transform(pct).generate_dwarf(gen_dwarf);
                                cfg.on_parse(move |_, _| { c2.fetch_add(1, Ordering::SeqCst); Ok(()) });
                                let mut m = cfg.parse(&w2)?;
                                let out = m.emit_wasm();
                                let s = sections(&out)?;
                                let has = |n: &str| s.iter().any(|x| x == n);
                                if has("custom:name") != (gen_names && with_names) { return Ok(Some(format!("name section present={} but generate_name_section={gen_names}, input had names={with_names}", has("custom:name")))); }
                                if has("custom:producers") != gen_prod { return Ok(Some(format!("producers section present={} but generate_producers_section={gen_prod}", has("custom:producers")))); }
                                if s.iter().any(|x| x.starts_with("custom:.debug")) && !gen_dwarf { return Ok(Some("DWARF section carried over although DWARF generation is off".into())); }
                                if with_dwarf && gen_dwarf && !(has("custom:.debug_info") && has("custom:.debug_line")) { return Ok(Some("DWARF generation is on and the input has DWARF, but the output has no .debug_info / .debug_line".into())); }
                                if let Some(k) = STALE_IF_KEPT.iter().find(|n| has(&format!("custom:{n}"))) { return Ok(Some(format!("the DWARF section {k} of the input, which walrus does not convert, is carried into the output (it indexes sections that were rewritten or dropped)"))); }
                                if !with_dwarf && s.iter().any(|x| x.starts_with("custom:.debug")) { return Ok(Some("DWARF sections appear although the input has none".into())); }
                                if with_dwarf && gen_dwarf {
                                    // the same switch values set in the other order give the same DWARF (what is written depends on the values,
                                    // not on the order of the setter calls)
                                    let mut cfg_b = walrus::ModuleConfig::new();
                                    cfg_b.generate_name_section(gen_names).generate_producers_section(gen_prod).generate_dwarf(gen_dwarf).preserve_code_transform(pct);
                                    let out_b = cfg_b.parse(&w2)?.emit_wasm();
                                    let dbg = |w: &[u8]| -> Result<Vec<(String, Vec<u8>)>> {
                                        let mut v = vec![];
                                        for p in wasmparser::Parser::new(0).parse_all(w) { if let wasmparser::Payload::CustomSection(c) = p? { if c.name().starts_with(".debug") { v.push((c.name().to_string(), c.data().to_vec())); } } }
                                        Ok(v)
                                    };
                                    if dbg(&out)? != dbg(&out_b)? { return Ok(Some("generate_dwarf(true) followed by preserve_code_transform(..) writes different DWARF than the same values set in the other order".into())); }
                                }
                                for n in ["type", "function", "export", "code", "custom:other"] { if !has(n) { return Ok(Some(format!("section {n} missing"))); } }
                                if s.iter().filter(|x| *x == "custom:other").count() != 1 { return Ok(Some("custom section `other` not emitted exactly once".into())); }
                                if gen_prod {
                                    // three more round trips: fields preserved, walrus recorded exactly once
                                    let mut cur = out.clone();
                                    for _ in 0..3 {
                                        let mut c = walrus::ModuleConfig::new();
                                        c.generate_producers_section(true);
                                        cur = c.parse(&cur)?.emit_wasm();
                                    }
                                    let p = producers(&cur)?;
                                    let walrus_n: usize = p.iter().filter(|(f, _)| f == "processed-by").map(|(_, v)| v.iter().filter(|(n, _)| n == "walrus").count()).sum();
                                    if walrus_n != 1 { return Ok(Some(format!("walrus recorded {walrus_n} times as processed-by after 4 round trips: {:?}", p))); }
                                    if p.iter().filter(|(f, _)| f == "processed-by").count() != 1 { return Ok(Some(format!("duplicate processed-by field: {:?}", p))); }
                                    if let Some(fields) = prods2 {
                                        for (fname, vals) in fields {
                                            for (a, b) in vals.iter() {
                                                if *a == "walrus" { continue; }
                                                let ok = p.iter().any(|(f, v)| f == fname && v.iter().any(|(x, y)| x == a && y == b));
                                                if !ok { return Ok(Some(format!("input producers entry {fname}/{a} {b} lost: {:?}", p))); }
                                            }
                                        }
                                        // order of the input fields and values is kept
                                        let names: Vec<&String> = p.iter().map(|(f, _)| f).collect();
                                        let want: Vec<&str> = fields.iter().map(|(f, _)| *f).collect();
                                        let got: Vec<&str> = names.iter().map(|s| s.as_str()).filter(|f| want.contains(f)).collect();
                                        if got != want { return Ok(Some(format!("producers fields reordered: {:?}", p))); }
                                    }
                                }
                                Ok(None)
                            });
                            let n = calls.load(Ordering::SeqCst);
                            let what = match r {
                                Ok(Ok(None)) => if n != 1 { Some(format!("on_parse ran {n} times for one successful parse")) } else { None },
                                Ok(Ok(Some(w))) => Some(w),
                                Ok(Err(e)) => Some(format!("error: {e:#}")),
                                Err(_) => Some("panic".into()),
                            };
                            if let Some(w) = what {
                                failures.push(json!({"input": {"names": with_names, "producers": pi, "dwarf": with_dwarf}, "config": {"names": gen_names, "producers": gen_prod, "dwarf": gen_dwarf, "preserve_code_transform": pct}, "what": w}));
                            }
                          }
                        }
                    }
                }
            }
        }
    }
    // a failed parse never runs the callback
    for bad in [vec![0u8, 1, 2], { let mut w = input(true, None, false, true); w.truncate(w.len() - 3); w }, { let mut w = input(false, None, false, false); let n = w.len(); w[n - 2] = 0xff; w }] {
        checked += 1;
        let calls = Arc::new(AtomicUsize::new(0));
        let c2 = calls.clone();
        let r = std::panic::catch_unwind(move || {
            let mut cfg = walrus::ModuleConfig::new();
            cfg.on_parse(move |_, _| { c2.fetch_add(1, Ordering::SeqCst); Ok(()) });
            cfg.parse(&bad).is_ok()
        });
        match r {
            Ok(false) => if calls.load(Ordering::SeqCst) != 0 { failures.push(json!({"what": "on_parse ran although parsing failed"})); },
            Ok(true) => {}
            Err(_) => failures.push(json!({"what": "panic on invalid input"})),
        }
    }
    failures.truncate(8);
    Ok(json!({"violated": !failures.is_empty(), "cases_checked": checked, "failures": failures}))
}
