use anyhow::{Context, Result};
use serde_json::{json, Value};
use wasm_encoder::*;

/// operator sequences (Debug form) of every function body of a binary
pub fn operators(wasm: &[u8]) -> Result<Vec<Vec<String>>> {
    let mut out = vec![];
    for payload in wasmparser::Parser::new(0).parse_all(wasm) {
        if let wasmparser::Payload::CodeSectionEntry(body) = payload? {
            let mut v = vec![];
            let mut r = body.get_operators_reader()?;
            while !r.eof() {
                v.push(format!("{:?}", r.read()?));
            }
            out.push(v);
        }
    }
    Ok(out)
}

pub fn roundtrip(wasm: &[u8]) -> Result<Vec<u8>> {
    let mut config = walrus::ModuleConfig::new();
    config.generate_producers_section(false);
    config.generate_name_section(false);
    let mut m = config.parse(wasm).context("walrus parse")?;
    Ok(m.emit_wasm())
}

/// what the property allows walrus to change in a body: nops dropped; statically unreachable operators dropped
/// (reachability by the usual rules: nothing after br / br_table / return / unreachable in a frame; the end of a
/// block or if is reachable if an arm falls through or a reachable branch targets it); an empty `else` arm may
/// be added.  Any sound dead-code elision is therefore accepted; anything else is a difference.
pub fn normalize(ops: &[String]) -> Vec<String> {
    #[derive(Clone)]
    struct Frame { is_loop: bool, is_if: bool, has_else: bool, entry: bool, cur: bool, then_falls: bool, branched: bool }
    let mut frames: Vec<Frame> = vec![Frame { is_loop: false, is_if: false, has_else: false, entry: true, cur: true, then_falls: false, branched: false }];
    let mut out: Vec<String> = vec![];
    let depth_of = |s: &str| -> Vec<usize> {
        // label depths mentioned by Br / BrIf / BrTable (Debug text)
        let mut v = vec![];
        if let Some(k) = s.find("relative_depth: ") {
            let t: String = s[k + 16..].chars().take_while(|c| c.is_ascii_digit()).collect();
            v.push(t.parse().unwrap_or(0));
        }
        v
    };
    for o in ops {
        let reachable = frames.last().unwrap().cur;
        let opens = o.starts_with("Block ") || o.starts_with("Loop ") || o.starts_with("If ");
        if opens {
            frames.push(Frame { is_loop: o.starts_with("Loop "), is_if: o.starts_with("If "), has_else: false, entry: reachable, cur: reachable, then_falls: false, branched: false });
            if reachable { out.push(o.clone()); }
            continue;
        }
        if o == "Else" {
            let f = frames.last_mut().unwrap();
            f.then_falls = f.cur;
            f.has_else = true;
            f.cur = f.entry;
            if f.entry { out.push(o.clone()); }
            continue;
        }
        if o == "End" {
            let f = frames.pop().unwrap();
            let end_reachable = f.cur || f.then_falls || (f.branched && !f.is_loop) || (f.is_if && !f.has_else && f.entry);
            if f.entry { out.push(o.clone()); }
            if let Some(p) = frames.last_mut() {
                p.cur = f.entry && end_reachable;
            }
            continue;
        }
        if !reachable || o == "Nop" {
            continue;
        }
        out.push(o.clone());
        let n = frames.len();
        if o.starts_with("BrTable") {
            // targets are not in the Debug text of the reader-backed table: be conservative, every enclosing frame
            for f in frames.iter_mut() { f.branched = true; }
            frames.last_mut().unwrap().cur = false;
        } else if o.starts_with("Br {") {
            for d in depth_of(o) { if d < n { frames[n - 1 - d].branched = true; } }
            frames.last_mut().unwrap().cur = false;
        } else if o.starts_with("BrIf") {
            for d in depth_of(o) { if d < n { frames[n - 1 - d].branched = true; } }
        } else if o == "Unreachable" || o == "Return" || o.starts_with("ReturnCall") {
            frames.last_mut().unwrap().cur = false;
        }
    }
    // empty else arms: `Else` immediately followed by `End`
    let mut res: Vec<String> = vec![];
    let mut i = 0;
    while i < out.len() {
        if out[i] == "Else" && i + 1 < out.len() && out[i + 1] == "End" {
            i += 1;
            continue;
        }
        res.push(out[i].clone());
        i += 1;
    }
    // max_align is derived from the opcode by the decoder; it is not an immediate
    res.iter().map(|s| strip_max_align(s)).collect()
}

fn strip_max_align(s: &str) -> String {
    if let Some(k) = s.find("max_align: ") {
        let rest = &s[k..];
        if let Some(e) = rest.find(", ") {
            return format!("{}{}", &s[..k], &rest[e + 2..]);
        }
    }
    s.to_string()
}

pub fn compare_bodies(input: &[u8], output: &[u8]) -> Result<Option<Value>> {
    let mut a: Vec<Vec<String>> = operators(input)?.iter().map(|f| normalize(f)).collect();
    let mut b: Vec<Vec<String>> = operators(output)?.iter().map(|f| normalize(f)).collect();
    a.sort();
    b.sort();
    if a != b {
        return Ok(Some(json!({"input_ops": a, "output_ops": b})));
    }
    Ok(None)
}

/// `wat-roundtrip FILE`
pub fn wat_roundtrip(path: &str) -> Result<Value> {
    let text = std::fs::read_to_string(path)?;
    let wasm = wat::parse_str(&text).context("wat")?;
    let out = roundtrip(&wasm)?;
    let diff = compare_bodies(&wasm, &out)?;
    Ok(json!({"violated": diff.is_some(), "diff": diff, "file": path}))
}

// ------------------------------------------------------------------------------------------------
// the operator battery: every paired operator with boundary immediates, in a skeleton module that
// defines two entities of every kind; operand types are found by asking the real validator.

const VT: [ValType; 7] = [
    ValType::I32,
    ValType::I64,
    ValType::F32,
    ValType::F64,
    ValType::V128,
    ValType::Ref(RefType::FUNCREF),
    ValType::Ref(RefType::EXTERNREF),
];

fn const_of(t: ValType) -> Instruction<'static> {
    match t {
        ValType::I32 => Instruction::I32Const(0),
        ValType::I64 => Instruction::I64Const(0),
        ValType::F32 => Instruction::F32Const(0.0),
        ValType::F64 => Instruction::F64Const(0.0),
        ValType::V128 => Instruction::V128Const(0),
        ValType::Ref(r) if r == RefType::FUNCREF => Instruction::RefNull(HeapType::Abstract { shared: false, ty: AbstractHeapType::Func }),
        _ => Instruction::RefNull(HeapType::Abstract { shared: false, ty: AbstractHeapType::Extern }),
    }
}

/// skeleton: types, 2 imported-less functions, 2 tables, 3 memories (0: shared 32-bit, 1: 64-bit, 2: 32-bit),
/// 2 globals, 2 passive data, 2 passive elems; function 1 has the body under test
pub fn skeleton(operands: &[ValType], instr: &Instruction<'static>) -> Vec<u8> {
    let mut m = Module::new();
    let mut types = TypeSection::new();
    types.function([], []);
    types.function([ValType::I32], [ValType::I32]);
    m.section(&types);
    let mut funcs = FunctionSection::new();
    funcs.function(0);
    funcs.function(0);
    m.section(&funcs);
    let mut tables = TableSection::new();
    tables.table(TableType { element_type: RefType::FUNCREF, minimum: 1, maximum: None, table64: false, shared: false });
    tables.table(TableType { element_type: RefType::FUNCREF, minimum: 1, maximum: None, table64: false, shared: false });
    m.section(&tables);
    let mut mems = MemorySection::new();
    mems.memory(MemoryType { minimum: 1, maximum: Some(1), memory64: false, shared: true, page_size_log2: None });
    mems.memory(MemoryType { minimum: 1, maximum: None, memory64: true, shared: false, page_size_log2: None });
    mems.memory(MemoryType { minimum: 1, maximum: None, memory64: false, shared: false, page_size_log2: None });
    m.section(&mems);
    let mut globals = GlobalSection::new();
    globals.global(GlobalType { val_type: ValType::I32, mutable: true, shared: false }, &ConstExpr::i32_const(0));
    globals.global(GlobalType { val_type: ValType::I32, mutable: true, shared: false }, &ConstExpr::i32_const(1));
    m.section(&globals);
    let mut exports = ExportSection::new();
    exports.export("f", ExportKind::Func, 1);
    m.section(&exports);
    let mut elems = ElementSection::new();
    elems.passive(Elements::Functions(&[0]));
    elems.passive(Elements::Functions(&[1]));
    m.section(&elems);
    m.section(&DataCountSection { count: 2 });
    let mut code = CodeSection::new();
    // function 0 is kept larger than function 1 so that walrus's (size desc, id) ordering leaves indices alone
    let mut f0 = Function::new([]);
    for _ in 0..64 {
        f0.instruction(&Instruction::I32Const(7));
        f0.instruction(&Instruction::Drop);
    }
    f0.instruction(&Instruction::End);
    code.function(&f0);
    // both locals are used, so local compaction is the identity
    let mut f1 = Function::new([(2, ValType::I32)]);
    for l in 0..2 {
        f1.instruction(&Instruction::LocalGet(l));
        f1.instruction(&Instruction::Drop);
    }
    for t in operands {
        f1.instruction(&const_of(*t));
    }
    f1.instruction(instr);
    f1.instruction(&Instruction::Unreachable);
    f1.instruction(&Instruction::End);
    code.function(&f1);
    m.section(&code);
    let mut data = DataSection::new();
    data.passive([1u8, 2, 3]);
    data.passive([4u8]);
    m.section(&data);
    m.finish()
}

fn walrus_features() -> wasmparser::WasmFeatures {
    use wasmparser::WasmFeatures as F;
    let mut f = F::empty();
    for x in [F::FLOATS, F::MUTABLE_GLOBAL, F::SATURATING_FLOAT_TO_INT, F::SIGN_EXTENSION, F::MULTI_VALUE, F::REFERENCE_TYPES,
              F::BULK_MEMORY, F::SIMD, F::RELAXED_SIMD, F::TAIL_CALL, F::MULTI_MEMORY, F::MEMORY64, F::THREADS] {
        f.insert(x);
    }
    f
}

fn validates(wasm: &[u8]) -> bool {
    wasmparser::Validator::new_with_features(walrus_features()).validate_all(wasm).is_ok()
}

/// operand types (bottom to top) under which the validator accepts `instr` in the skeleton, if any
pub fn find_operands(instr: &Instruction<'static>) -> Option<Vec<ValType>> {
    for n in 0..=4usize {
        let total = 7usize.pow(n as u32);
        for code in 0..total {
            let mut c = code;
            let mut ops = Vec::with_capacity(n);
            for _ in 0..n {
                ops.push(VT[c % 7]);
                c /= 7;
            }
            // wasm-encoder asserts lane bounds while encoding: such a sample is simply not encodable
            let w = std::panic::catch_unwind(|| skeleton(&ops, instr));
            match w {
                Ok(w) => {
                    if validates(&w) {
                        return Some(ops);
                    }
                }
                Err(_) => return None,
            }
        }
    }
    None
}

/// `op [NAME...]`: round trip every sample of the named operators (all when none is named)
pub fn op_roundtrip(args: &[String]) -> Result<Value> {
    let all = crate::gen_ops::samples();
    std::panic::set_hook(Box::new(|_| {}));
    let mut checked = 0usize;
    let mut distinct_ops = 0usize;
    let mut rejected = vec![];
    let mut failures = vec![];
    for (name, proposal, instrs) in all {
        if !args.is_empty() && !args.iter().any(|a| a == name) {
            continue;
        }
        let mut any = false;
        for i in instrs {
            let ops = match find_operands(&i) {
                Some(o) => o,
                None => continue,
            };
            any = true;
            let wasm = skeleton(&ops, &i);
            checked += 1;
            match std::panic::catch_unwind(|| roundtrip(&wasm)) {
                Ok(Ok(out)) => {
                    if let Some(d) = compare_bodies(&wasm, &out)? {
                        if failures.len() < 20 {
                            failures.push(json!({"operator": name, "instruction": format!("{:?}", i), "diff": d,
                                "input_wasm_hex": hex(&wasm)}));
                        }
                    }
                }
                Ok(Err(e)) => {
                    if failures.len() < 20 {
                        failures.push(json!({"operator": name, "instruction": format!("{:?}", i), "error": format!("{e:#}"),
                            "input_wasm_hex": hex(&wasm)}));
                    }
                }
                Err(_) => {
                    if failures.len() < 20 {
                        failures.push(json!({"operator": name, "instruction": format!("{:?}", i), "panic": true, "input_wasm_hex": hex(&wasm)}));
                    }
                }
            }
        }
        if any {
            distinct_ops += 1;
        } else {
            rejected.push(json!([name, proposal]));
        }
    }
    Ok(json!({"violated": !failures.is_empty(), "samples_checked": checked, "operators_accepted": distinct_ops,
              "operators_rejected_by_validator": rejected, "failures": failures}))
}

pub fn hex(b: &[u8]) -> String {
    b.iter().map(|x| format!("{:02x}", x)).collect()
}

pub fn unhex(s: &str) -> Vec<u8> {
    (0..s.len() / 2).map(|i| u8::from_str_radix(&s[2 * i..2 * i + 2], 16).unwrap()).collect()
}

/// `wasm-roundtrip HEX`: replay a stored failing module
pub fn wasm_roundtrip(hexs: &str) -> Result<Value> {
    let wasm = unhex(hexs);
    let out = roundtrip(&wasm)?;
    let diff = compare_bodies(&wasm, &out)?;
    Ok(json!({"violated": diff.is_some(), "diff": diff}))
}

// ------------------------------------------------------------------------------------------------
// control-flow battery: every nesting of block / loop / if / if-else with br / br_if / br_table / return /
// unreachable / plain instructions, up to a node budget (exhaustive for the stated budget)
#[derive(Clone, Debug)]
enum St {
    Plain(i32),
    Block(Vec<St>),
    Loop(Vec<St>),
    If(Vec<St>, Option<Vec<St>>),
    Br(u32),
    BrIf(u32),
    BrTable(Vec<u32>, u32),
    Return,
    Unreachable,
}

fn gen_seqs(budget: usize, depth: u32, max_depth: u32, out: &mut Vec<Vec<St>>) {
    // all sequences with total node count <= budget
    out.push(vec![]);
    if budget == 0 {
        return;
    }
    let mut firsts: Vec<(St, usize)> = vec![]; // (statement, nodes used)
    firsts.push((St::Plain(1), 1));
    firsts.push((St::Return, 1));
    firsts.push((St::Unreachable, 1));
    for d in 0..=depth {
        firsts.push((St::Br(d), 1));
        firsts.push((St::BrIf(d), 1));
    }
    if depth >= 1 {
        firsts.push((St::BrTable(vec![0, depth], depth - 1), 1));
    } else {
        firsts.push((St::BrTable(vec![0], 0), 1));
    }
    // a br_table with an EMPTY label vector (only the default label): still a br_table, it pops its selector
    firsts.push((St::BrTable(vec![], depth), 1));
    if depth < max_depth {
        for inner_budget in 0..budget {
            let mut inner = vec![];
            gen_seqs(inner_budget, depth + 1, max_depth, &mut inner);
            for body in inner.iter().filter(|b| count(b) == inner_budget) {
                firsts.push((St::Block(body.clone()), 1 + inner_budget));
                firsts.push((St::Loop(body.clone()), 1 + inner_budget));
                firsts.push((St::If(body.clone(), None), 1 + inner_budget));
                // else arms: split remaining budget
                for else_budget in 0..(budget - inner_budget) {
                    let mut els = vec![];
                    gen_seqs(else_budget, depth + 1, max_depth, &mut els);
                    for e in els.iter().filter(|b| count(b) == else_budget) {
                        if 1 + inner_budget + else_budget <= budget {
                            firsts.push((St::If(body.clone(), Some(e.clone())), 1 + inner_budget + else_budget));
                        }
                    }
                }
            }
        }
    }
    for (st, used) in firsts {
        if used > budget {
            continue;
        }
        let mut rest = vec![];
        gen_seqs(budget - used, depth, max_depth, &mut rest);
        for r in rest {
            let mut s = vec![st.clone()];
            s.extend(r);
            out.push(s);
        }
    }
}

fn count(s: &[St]) -> usize {
    s.iter()
        .map(|x| match x {
            St::Block(b) | St::Loop(b) => 1 + count(b),
            St::If(a, b) => 1 + count(a) + b.as_ref().map(|e| count(e)).unwrap_or(0),
            _ => 1,
        })
        .sum()
}

fn emit_seq(f: &mut Function, s: &[St], k: &mut i32) {
    for st in s {
        match st {
            St::Plain(_) => {
                *k += 1;
                f.instruction(&Instruction::I32Const(*k));
                f.instruction(&Instruction::Drop);
            }
            St::Block(b) => {
                f.instruction(&Instruction::Block(BlockType::Empty));
                emit_seq(f, b, k);
                f.instruction(&Instruction::End);
            }
            St::Loop(b) => {
                f.instruction(&Instruction::Loop(BlockType::Empty));
                emit_seq(f, b, k);
                f.instruction(&Instruction::End);
            }
            St::If(a, e) => {
                f.instruction(&Instruction::I32Const(1));
                f.instruction(&Instruction::If(BlockType::Empty));
                emit_seq(f, a, k);
                if let Some(e) = e {
                    f.instruction(&Instruction::Else);
                    emit_seq(f, e, k);
                }
                f.instruction(&Instruction::End);
            }
            St::Br(d) => {
                f.instruction(&Instruction::Br(*d));
            }
            St::BrIf(d) => {
                f.instruction(&Instruction::I32Const(0));
                f.instruction(&Instruction::BrIf(*d));
            }
            St::BrTable(t, d) => {
                f.instruction(&Instruction::I32Const(0));
                f.instruction(&Instruction::BrTable(t.clone().into(), *d));
            }
            St::Return => {
                f.instruction(&Instruction::Return);
            }
            St::Unreachable => {
                f.instruction(&Instruction::Unreachable);
            }
        }
    }
}

fn cf_module(s: &[St]) -> Vec<u8> {
    let mut m = Module::new();
    let mut types = TypeSection::new();
    types.function([], []);
    m.section(&types);
    let mut funcs = FunctionSection::new();
    funcs.function(0);
    m.section(&funcs);
    let mut exports = ExportSection::new();
    exports.export("f", ExportKind::Func, 0);
    m.section(&exports);
    let mut code = CodeSection::new();
    let mut f = Function::new([]);
    let mut k = 0;
    emit_seq(&mut f, s, &mut k);
    f.instruction(&Instruction::End);
    code.function(&f);
    m.section(&code);
    m.finish()
}

/// `cf BUDGET [MAX_DEPTH]`: exhaustive for the budget; modules the validator rejects are skipped
pub fn cf_roundtrip(args: &[String]) -> Result<Value> {
    let budget: usize = args.get(0).map(|s| s.parse().unwrap_or(4)).unwrap_or(4);
    let max_depth: u32 = args.get(1).map(|s| s.parse().unwrap_or(3)).unwrap_or(3);
    std::panic::set_hook(Box::new(|_| {}));
    let mut all = vec![];
    gen_seqs(budget, 0, max_depth, &mut all);
    let mut checked = 0usize;
    let mut skipped = 0usize;
    let mut failures = vec![];
    for s in &all {
        let wasm = cf_module(s);
        if !validates(&wasm) {
            skipped += 1;
            continue;
        }
        checked += 1;
        match std::panic::catch_unwind(|| roundtrip(&wasm)) {
            Ok(Ok(out)) => {
                let valid_out = validates(&out);
                let d = compare_bodies(&wasm, &out)?;
                if d.is_some() || !valid_out {
                    if failures.len() < 10 {
                        failures.push(json!({"program": format!("{:?}", s), "diff": d, "output_validates": valid_out, "input_wasm_hex": hex(&wasm)}));
                    }
                }
            }
            Ok(Err(e)) => {
                if failures.len() < 10 {
                    failures.push(json!({"program": format!("{:?}", s), "error": format!("{e:#}"), "input_wasm_hex": hex(&wasm)}));
                }
            }
            Err(_) => {
                if failures.len() < 10 {
                    failures.push(json!({"program": format!("{:?}", s), "panic": true, "input_wasm_hex": hex(&wasm)}));
                }
            }
        }
    }
    // known finding F19: one strict comparison (empty `else` arms NOT normalised away): walrus writes an `else` for every `if` that has none
    {
        checked += 1;
        let wasm = wat::parse_str(r#"(module (func (export "f") (param i32) (if (local.get 0) (then (drop (i32.const 1))))))"#)?;
        let out = roundtrip(&wasm)?;
        let a = operators(&wasm)?; let b = operators(&out)?;
        let (a, b) = (a.last().cloned().unwrap_or_default(), b.last().cloned().unwrap_or_default());
        if a != b {
            failures.push(json!({"program": "if without else", "finding_key": "C03:empty-else-written-for-an-if-without-else",
                "what": "the output body is not the input's operator sequence: an `else` was added", "input_body": a, "output_body": b, "input_wasm_hex": hex(&wasm)}));
        }
    }
    Ok(json!({"violated": !failures.is_empty(), "programs_generated": all.len(), "programs_checked": checked,
              "rejected_by_validator": skipped, "budget": budget, "max_depth": max_depth, "failures": failures}))
}


/// all control-flow modules of a budget (validated)
pub fn cf_modules(budget: usize, max_depth: u32) -> Vec<Vec<u8>> {
    let mut all = vec![];
    gen_seqs(budget, 0, max_depth, &mut all);
    all.iter().map(|s| cf_module(s)).filter(|w| validates(w)).collect()
}

/// exactly walrus's documented elision (what the in-memory tree contains): nops dropped, nothing kept in a frame
/// after br / br_table / return / unreachable (including nested constructs) up to the closing else / end
pub fn normalize_walrus(ops: &[String]) -> Vec<String> {
    let mut out: Vec<String> = vec![];
    let mut dead_depth: Option<usize> = None;
    for o in ops {
        let opens = o.starts_with("Block ") || o.starts_with("Loop ") || o.starts_with("If ");
        if let Some(d) = dead_depth {
            if opens { dead_depth = Some(d + 1); continue; }
            if o == "End" || o == "Else" {
                if d == 0 { dead_depth = None; } else { if o == "End" { dead_depth = Some(d - 1); } continue; }
            } else { continue; }
        }
        if o == "Nop" { continue; }
        out.push(o.clone());
        if o == "Unreachable" || o == "Return" || o.starts_with("Br {") || o.starts_with("BrTable") { dead_depth = Some(0); }
    }
    out
}
