use anyhow::{Context, Result};
use serde_json::{json, Value};

/// operator sequences (Debug form) of every function body of a binary
pub fn operators(wasm: &[u8]) -> Result<Vec<Vec<String>>> {
    let mut out = vec![];
    for payload in wasmparser::Parser::new(0).parse_all(wasm) {
        if let wasmparser::Payload::CodeSectionEntry(body) = payload? {
            let mut v = vec![];
            let mut r = body.get_operators_reader()?;
            while !r.eof() {
                v.push(format!("{:?}", r.read()?));
            }
            out.push(v);
        }
    }
    Ok(out)
}

pub fn roundtrip(wasm: &[u8]) -> Result<Vec<u8>> {
    let mut config = walrus::ModuleConfig::new();
    config.generate_producers_section(false);
    let mut m = config.parse(wasm).context("walrus parse")?;
    Ok(m.emit_wasm())
}

/// `wat-roundtrip FILE`: the bodies must be the same operator sequences after the round trip
/// (function order may change: bodies are compared as multisets of sequences; nops are ignored).
pub fn wat_roundtrip(path: &str) -> Result<Value> {
    let text = std::fs::read_to_string(path)?;
    let wasm = wat::parse_str(&text).context("wat")?;
    let out = roundtrip(&wasm)?;
    let norm = |v: Vec<Vec<String>>| {
        let mut v: Vec<Vec<String>> = v
            .into_iter()
            .map(|f| f.into_iter().filter(|o| o != "Nop").collect())
            .collect();
        v.sort();
        v
    };
    let a = norm(operators(&wasm)?);
    let b = norm(operators(&out)?);
    Ok(json!({"violated": a != b, "input_ops": a, "output_ops": b, "file": path}))
}

pub fn op_roundtrip(_args: &[String]) -> Result<Value> {
    anyhow::bail!("not built yet")
}
