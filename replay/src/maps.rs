//! `maps`: C19 — the index maps exposed to extension code agree with the binaries.
//! Every entity of a corpus module carries an attribute that identifies it within its index space (a function by its number of
//! parameters, a table / memory by its initial size, a global by its value type + initialiser, a data segment by its length, an
//! element segment by its number of items, a type by its signature, a local by its type).  The parse-time map (seen by `on_parse`)
//! is compared with the INPUT binary, the emit-time map (seen by `CustomSection::data`) with the OUTPUT binary.
use anyhow::Result;
use serde_json::json;
use std::borrow::Cow;
use std::sync::{Arc, Mutex};
use walrus::{CustomSection, IdsToIndices};
use wasmparser::{Parser, Payload, TypeRef};
type JValue = serde_json::Value;

#[derive(Default, Debug, Clone, PartialEq)]
struct Attrs { types: Vec<String>, funcs: Vec<String>, tables: Vec<String>, mems: Vec<String>, globals: Vec<String>, elems: Vec<String>, datas: Vec<String>, locals: Vec<Vec<String>> }

fn vt(t: wasmparser::ValType) -> String { format!("{:?}", t).to_lowercase() }

/// attributes per index, from a binary
fn of_binary(wasm: &[u8]) -> Result<Attrs> {
    let mut a = Attrs::default();
    let mut sigs: Vec<(Vec<String>, Vec<String>)> = vec![];
    let mut func_ty: Vec<u32> = vec![];
    let mut n_imp = 0usize;
    for p in Parser::new(0).parse_all(wasm) {
        match p? {
            Payload::TypeSection(s) => for t in s.into_iter_err_on_gc_types() { let t = t?; sigs.push((t.params().iter().map(|x| vt(*x)).collect(), t.results().iter().map(|x| vt(*x)).collect())); },
            Payload::ImportSection(s) => for i in s { match i?.ty {
                TypeRef::Func(t) => { func_ty.push(t); n_imp += 1; }
                TypeRef::Table(t) => a.tables.push(format!("initial {}", t.initial)),
                TypeRef::Memory(m) => a.mems.push(format!("initial {}", m.initial)),
                TypeRef::Global(g) => a.globals.push(format!("{} import", vt(g.content_type))),
                _ => {}
            } },
            Payload::FunctionSection(s) => for t in s { func_ty.push(t?); },
            Payload::TableSection(s) => for t in s { a.tables.push(format!("initial {}", t?.ty.initial)); },
            Payload::MemorySection(s) => for m in s { a.mems.push(format!("initial {}", m?.initial)); },
            Payload::GlobalSection(s) => for g in s { let g = g?; let mut r = g.init_expr.get_operators_reader(); a.globals.push(format!("{} {}", vt(g.ty.content_type), match r.read()? { wasmparser::Operator::I32Const { value } => format!("{value}"), wasmparser::Operator::I64Const { value } => format!("{value}"), o => format!("{o:?}") })); },
            Payload::ElementSection(s) => for e in s { let n = match e?.items { wasmparser::ElementItems::Functions(r) => r.count(), wasmparser::ElementItems::Expressions(_, r) => r.count() }; a.elems.push(format!("{n} items")); },
            Payload::DataSection(s) => for d in s { a.datas.push(format!("{} bytes", d?.data.len())); },
            Payload::CodeSectionEntry(b) => {
                let f = n_imp + a.locals.len();
                let mut l: Vec<String> = sigs[func_ty[f] as usize].0.clone();
                for x in b.get_locals_reader()? { let (n, t) = x?; for _ in 0..n { l.push(vt(t)); } }
                a.locals.push(l);
            }
            _ => {}
        }
    }
    a.types = sigs.iter().map(|(p, r)| format!("{:?}->{:?}", p, r)).collect();
    a.funcs = func_ty.iter().map(|t| a.types[*t as usize].clone()).collect();
    Ok(a)
}

fn wvt(t: walrus::ValType) -> String { format!("{:?}", t).to_lowercase().replace("ref(funcref)", "funcref").replace("ref(externref)", "externref") }
fn ty_attr(m: &walrus::Module, t: walrus::TypeId) -> String { let t = m.types.get(t); format!("{:?}->{:?}", t.params().iter().map(|x| wvt(*x)).collect::<Vec<_>>(), t.results().iter().map(|x| wvt(*x)).collect::<Vec<_>>()) }
fn global_attr(m: &walrus::Module, g: walrus::GlobalId) -> String {
    let g = m.globals.get(g);
    match &g.kind { walrus::GlobalKind::Import(_) => format!("{} import", wvt(g.ty)),
        walrus::GlobalKind::Local(walrus::ConstExpr::Value(walrus::ir::Value::I32(v))) => format!("{} {v}", wvt(g.ty)),
        walrus::GlobalKind::Local(walrus::ConstExpr::Value(walrus::ir::Value::I64(v))) => format!("{} {v}", wvt(g.ty)),
        walrus::GlobalKind::Local(o) => format!("{} {o:?}", wvt(g.ty)) }
}
fn elem_attr(m: &walrus::Module, e: walrus::ElementId) -> String { let n = match &m.elements.get(e).items { walrus::ElementItems::Functions(v) => v.len(), walrus::ElementItems::Expressions(_, v) => v.len() }; format!("{n} items") }

#[derive(Debug, Clone)]
enum AnyId { T(walrus::TypeId), F(walrus::FunctionId), Tb(walrus::TableId), M(walrus::MemoryId), G(walrus::GlobalId), E(walrus::ElementId), D(walrus::DataId) }
#[derive(Debug)]
struct Probe { ids: Vec<(AnyId, String)>, out: Arc<Mutex<Vec<(String, u32, String)>>> }
impl CustomSection for Probe {
    fn name(&self) -> &str { "maps-probe" }
    fn data(&self, ids: &IdsToIndices) -> Cow<[u8]> {
        let mut o = self.out.lock().unwrap();
        o.clear();
        for (id, attr) in &self.ids {
            let (k, i) = match id { AnyId::T(x) => ("type", ids.get_type_index(*x)), AnyId::F(x) => ("func", ids.get_func_index(*x)), AnyId::Tb(x) => ("table", ids.get_table_index(*x)),
                AnyId::M(x) => ("memory", ids.get_memory_index(*x)), AnyId::G(x) => ("global", ids.get_global_index(*x)), AnyId::E(x) => ("elem", ids.get_element_index(*x)), AnyId::D(x) => ("data", ids.get_data_index(*x)) };
            o.push((k.to_string(), i, attr.clone()));
        }
        vec![].into()
    }
}

const CORPUS: &[(&str, &str)] = &[
    ("imports-first-and-reordering", r#"(module
        (type $t0 (func)) (type $t1 (func (param i32))) (type $t2 (func (param i32 i32))) (type $t3 (func (param i32 i32 i32))) (type $t4 (func (param i64) (result i64)))
        (import "e" "f1" (func $if1 (type $t1))) (import "e" "t9" (table $it 9 funcref)) (import "e" "m7" (memory $im 7)) (import "e" "g" (global $ig i64))
        (import "e" "f4" (func $if4 (type $t4)))
        (table $t5 5 funcref) (table $t6 6 funcref) (memory $m3 3) (global $g10 i32 (i32.const 10)) (global $g11 i32 (i32.const 11)) (global $g12 i64 (i64.const 12))
        (func $small (type $t0) (call $if1 (i32.const 0)))
        (func $big (type $t2) (local i64 i32 f32) (drop (local.get 2)) (drop (local.get 3)) (drop (local.get 4)) (call $if1 (local.get 0)) (call $if1 (local.get 1)) (call $small) (call $small))
        (func $mid (type $t3) (local f64) (drop (local.get 3)) (call $small) (drop (call $if4 (i64.const 1))))
        (elem $e1 (table $t5) (i32.const 0) func $small) (elem $e2 (table $t6) (i32.const 0) func $small $big) (elem $e3 func $small $big $mid)
        (data $d1 (memory $m3) (i32.const 0) "a") (data $d2 (memory $im) (i32.const 0) "bb") (data $d3 "ccc")
        (export "small" (func $small)) (export "big" (func $big)) (export "mid" (func $mid)) (export "t6" (table $t6)) (export "g12" (global $g12)) (export "g10" (global $g10)) (export "g11" (global $g11))
        (func (export "user") (param i32 i32 i32 i32) (table.init $t5 $e3 (i32.const 0) (i32.const 0) (i32.const 1)) (memory.init $m3 $d3 (i32.const 0) (i32.const 0) (i32.const 1))
            (drop (global.get $ig))))"#),
    ("no-data-count", r#"(module (type (func)) (type (func (param i32)))
        (memory 1) (data (i32.const 0) "x") (data (i32.const 8) "yy") (data (i32.const 16) "zzz")
        (func (export "a") (type 0)) (func (export "b") (type 1) (i32.const 1) (drop) (i32.const 2) (drop)))"#),
    ("declared-elem-first-and-dead-segments", r#"(module (type (func)) (type (func (param i32)))
        (memory 1) (table 4 funcref)
        (func $f (type 0)) (func $g (type 1) (drop (local.get 0)) (nop) (nop) (nop))
        (elem declare func $f) (elem (i32.const 0) func $f $g) (elem $p func $f $g $f)
        (data "dead-passive") (data (i32.const 0) "aa") (data $q "bbb") (data (i32.const 8) "cccc")
        (export "f" (func $f)) (export "g" (func $g))
        (func (export "u") (param i32 i32) (drop (ref.func $f)) (table.init $p (i32.const 0) (i32.const 0) (i32.const 1)) (memory.init $q (i32.const 0) (i32.const 0) (i32.const 1))))"#),
    ("duplicate-types", r#"(module (type $a (func (param i32))) (type $b (func (param i32))) (type $c (func (param i32 i32)))
        (func (export "f") (type $b) (drop (local.get 0))) (func (export "g") (type $c) (drop (local.get 0)) (drop (local.get 1)) (nop) (nop)))"#),
];

pub fn maps(args: &[String]) -> Result<JValue> {
    if !args.iter().any(|a| a == "loud") { std::panic::set_hook(Box::new(|_| {})); }
    let args: Vec<String> = args.iter().filter(|a| *a != "loud").cloned().collect();
    let mut failures = vec![];
    let mut checked = 0;
    for (name, text) in CORPUS {
        if !args.is_empty() && !args.iter().any(|a| a == name) { continue; }
        let wasm = wat::parse_str(text)?;
        let input = of_binary(&wasm)?;
        for scenario in ["emit", "gc+emit"] {
            let problems: Arc<Mutex<Vec<String>>> = Arc::new(Mutex::new(vec![]));
            let calls = Arc::new(Mutex::new(0usize));
            let (p2, c2, inp) = (problems.clone(), calls.clone(), input.clone());
            let w2 = wasm.clone();
            let r = std::panic::catch_unwind(move || -> Result<Option<(Vec<(String, u32, String)>, Vec<u8>)>> {
                let mut config = walrus::ModuleConfig::new();
                config.generate_producers_section(false);
                config.on_parse(move |m, ids| {
                    *c2.lock().unwrap() += 1;
                    let mut pr = p2.lock().unwrap();
                    let mut cmp = |kind: &str, i: usize, want: &str, got: std::result::Result<String, String>| { match got { Ok(g) if g == want => {} Ok(g) => pr.push(format!("parse-time map: {kind} index {i} is [{want}] in the input, the map returns an entity with [{g}]")), Err(e) => pr.push(format!("parse-time map: {kind} index {i} ([{want}]): {e}")) } };
                    for (i, w) in inp.types.iter().enumerate() { cmp("type", i, w, ids.get_type(i as u32).map(|t| ty_attr(m, t)).map_err(|e| e.to_string())); }
                    for (i, w) in inp.funcs.iter().enumerate() { cmp("func", i, w, ids.get_func(i as u32).map(|f| ty_attr(m, m.funcs.get(f).ty())).map_err(|e| e.to_string())); }
                    for (i, w) in inp.tables.iter().enumerate() { cmp("table", i, w, ids.get_table(i as u32).map(|t| format!("initial {}", m.tables.get(t).initial)).map_err(|e| e.to_string())); }
                    for (i, w) in inp.mems.iter().enumerate() { cmp("memory", i, w, ids.get_memory(i as u32).map(|t| format!("initial {}", m.memories.get(t).initial)).map_err(|e| e.to_string())); }
                    for (i, w) in inp.globals.iter().enumerate() { cmp("global", i, w, ids.get_global(i as u32).map(|g| global_attr(m, g)).map_err(|e| e.to_string())); }
                    for (i, w) in inp.elems.iter().enumerate() { cmp("elem", i, w, ids.get_element(i as u32).map(|e| elem_attr(m, e)).map_err(|e| e.to_string())); }
                    for (i, w) in inp.datas.iter().enumerate() { cmp("data", i, w, ids.get_data(i as u32).map(|d| format!("{} bytes", m.data.get(d).value.len())).map_err(|e| e.to_string())); }
                    let n_imp = inp.funcs.len() - inp.locals.len();
                    for (k, ls) in inp.locals.iter().enumerate() {
                        let f = match ids.get_func((n_imp + k) as u32) { Ok(f) => f, Err(_) => continue };
                        for (j, w) in ls.iter().enumerate() { cmp(&format!("local of func {}", n_imp + k), j, w, ids.get_local(f, j as u32).map(|l| wvt(m.locals.get(l).ty())).map_err(|e| e.to_string())); }
                        if ids.get_local(f, ls.len() as u32).is_ok() { cmp(&format!("local of func {}", n_imp + k), ls.len(), "no such local", Ok("a local".to_string())); }
                    }
                    Ok(())
                });
                let mut m = config.parse(&w2)?;
                if scenario == "gc+emit" { walrus::passes::gc::run(&mut m); }
                let mut ids: Vec<(AnyId, String)> = vec![];
                // (types: those of functions -- walrus also keeps internal entry types in the arena, which are never emitted)
                let mut seen_t = std::collections::BTreeSet::new();
                for f in m.funcs.iter() { if seen_t.insert(f.ty()) { ids.push((AnyId::T(f.ty()), ty_attr(&m, f.ty()))); } }
                for f in m.funcs.iter() { ids.push((AnyId::F(f.id()), ty_attr(&m, f.ty()))); }
                for t in m.tables.iter() { ids.push((AnyId::Tb(t.id()), format!("initial {}", t.initial))); }
                for t in m.memories.iter() { ids.push((AnyId::M(t.id()), format!("initial {}", t.initial))); }
                for g in m.globals.iter() { ids.push((AnyId::G(g.id()), global_attr(&m, g.id()))); }
                for e in m.elements.iter() { ids.push((AnyId::E(e.id()), elem_attr(&m, e.id()))); }
                for d in m.data.iter() { ids.push((AnyId::D(d.id()), format!("{} bytes", d.value.len()))); }
                let out = Arc::new(Mutex::new(vec![]));
                m.customs.add(Probe { ids, out: out.clone() });
                let wasm_out = m.emit_wasm();
                let seen = out.lock().unwrap().clone();
                Ok(Some((seen, wasm_out)))
            });
            checked += 1;
            let mut pr = problems.lock().unwrap().clone();
            match r {
                Ok(Ok(Some((seen, wasm_out)))) => {
                    if *calls.lock().unwrap() != 1 { pr.push(format!("on_parse ran {} times", calls.lock().unwrap())); }
                    match of_binary(&wasm_out) {
                        Ok(o) => {
                            if seen.is_empty() { pr.push("CustomSection::data was not called".into()); }
                            for (kind, idx, attr) in &seen {
                                let v = match kind.as_str() { "type" => &o.types, "func" => &o.funcs, "table" => &o.tables, "memory" => &o.mems, "global" => &o.globals, "elem" => &o.elems, _ => &o.datas };
                                match v.get(*idx as usize) { Some(a) if a == attr => {} other => pr.push(format!("emit-time map: the {kind} with [{attr}] is reported at index {idx}; the output binary has {:?} there", other)) }
                            }
                        }
                        Err(e) => pr.push(format!("output does not decode: {e}")),
                    }
                }
                Ok(Ok(None)) => {}
                Ok(Err(e)) => pr.push(format!("error: {e:#}")),
                Err(_) => pr.push("panic".into()),
            }
            if !pr.is_empty() { pr.truncate(6); failures.push(json!({"module": name, "scenario": scenario, "problems": pr, "wat": text})); }
        }
    }
    failures.truncate(8);
    Ok(json!({"violated": !failures.is_empty(), "cases_checked": checked, "failures": failures}))
}
