//! `replace`: C18 — Module::replace_imported_func / replace_exported_func rewire exactly one thing.
//! Observed on the emitted binary (decoded independently with wasmparser).
use anyhow::{anyhow, Result};
use serde_json::json;
type JValue = serde_json::Value;
use wasmparser::{ExternalKind, Operator, Parser, Payload, TypeRef};

const MARK: i32 = 0x5eed;   // the replacement body is `i32.const MARK ; drop ; unreachable`

#[derive(Debug, Default, Clone, PartialEq)]
struct Summary {
    imports: Vec<(String, String, String)>,          // (module, name, kind+type)
    exports: Vec<(String, String, u32)>,             // (name, kind, index)
    func_sigs: Vec<String>,                          // per function index: signature
    bodies: Vec<Vec<String>>,                        // per local function: operators
    n_imported_funcs: u32,
    elems: Vec<Vec<u32>>,
    start: Option<u32>,
}

fn summarize(wasm: &[u8]) -> Result<Summary> {
    let mut s = Summary::default();
    let mut types: Vec<String> = vec![];
    for p in Parser::new(0).parse_all(wasm) {
        match p? {
            Payload::TypeSection(r) => for t in r.into_iter_err_on_gc_types() { let t = t?; types.push(format!("{:?}->{:?}", t.params(), t.results())); },
            Payload::ImportSection(r) => for i in r {
                let i = i?;
                let k = match i.ty { TypeRef::Func(t) => { s.func_sigs.push(types[t as usize].clone()); s.n_imported_funcs += 1; format!("func {}", types[t as usize]) } other => format!("{other:?}") };
                s.imports.push((i.module.to_string(), i.name.to_string(), k));
            },
            Payload::FunctionSection(r) => for t in r { s.func_sigs.push(types[t? as usize].clone()); },
            Payload::ExportSection(r) => for e in r { let e = e?; s.exports.push((e.name.to_string(), format!("{:?}", e.kind), e.index)); },
            Payload::StartSection { func, .. } => s.start = Some(func),
            Payload::ElementSection(r) => for e in r {
                let mut v = vec![];
                if let wasmparser::ElementItems::Functions(fs) = e?.items { for f in fs { v.push(f?); } }
                s.elems.push(v);
            },
            Payload::CodeSectionEntry(b) => {
                let mut ops = vec![];
                let mut r = b.get_operators_reader()?;
                while !r.eof() { ops.push(match r.read()? { Operator::Call { function_index } => format!("call {function_index}"), o => format!("{o:?}") }); }
                s.bodies.push(ops);
            }
            _ => {}
        }
    }
    Ok(s)
}

fn is_new_body(b: &[String]) -> bool { b.iter().any(|o| o.contains(&format!("value: {MARK}"))) }
/// the replacement body reads every argument local handed to the builder closure, in order: they must be the function's parameters
fn args_ok(b: &[String], sig: &str) -> bool {
    let p = sig.split("->").next().unwrap_or("[]");
    let n = if p.trim() == "[]" { 0 } else { p.matches(',').count() + 1 };
    let got: Vec<String> = b.iter().filter(|o| o.starts_with("LocalGet")).cloned().collect();
    let want: Vec<String> = (0..n).map(|k| format!("LocalGet {{ local_index: {k} }}")).collect();
    got == want
}
/// identity of a function that survives renumbering: imported -> (module, name, sig); local -> its body with calls resolved recursively one level
fn ident(s: &Summary, f: u32) -> String {
    if f < s.n_imported_funcs {
        let mut k = 0;
        for (m, n, kind) in &s.imports { if kind.starts_with("func") { if k == f { return format!("import {m}.{n} {kind}"); } k += 1; } }
        "import ?".into()
    } else {
        let b = &s.bodies[(f - s.n_imported_funcs) as usize];
        let body: Vec<String> = b.iter().map(|o| if let Some(t) = o.strip_prefix("call ") { let t: u32 = t.parse().unwrap(); format!("call <{}>", shallow(s, t)) } else { o.clone() }).collect();
        format!("local {} {:?}", s.func_sigs[f as usize], body)
    }
}
fn shallow(s: &Summary, f: u32) -> String {
    if f < s.n_imported_funcs { ident(s, f) } else { let b = &s.bodies[(f - s.n_imported_funcs) as usize]; format!("local {} {:?}", s.func_sigs[f as usize], b.iter().map(|o| if o.starts_with("call ") { "call _".to_string() } else { o.clone() }).collect::<Vec<_>>()) }
}

const MODULES: &[(&str, &str)] = &[
    ("basic", r#"(module (import "env" "a" (func $a (param i32) (result i32))) (import "env" "b" (func $b (param i32) (result i32)))
        (func $caller (export "caller") (param i32) (result i32) (call $a (local.get 0)) (call $b) )
        (func $other (export "other") (param i64) (result i64) (local.get 0)))"#),
    ("same-name-overloads", r#"(module (import "env" "f" (func $f32 (param i32) (result i32))) (import "env" "f" (func $f64 (param i64) (result i64)))
        (func (export "u32") (param i32) (result i32) (call $f32 (local.get 0)))
        (func (export "u64") (param i64) (result i64) (call $f64 (local.get 0))))"#),
    ("shared-type-not-first", r#"(module (type $t (func (param i32))) (import "m" "x" (func $x (type $t))) (import "m" "y" (func $y (type $t))) (import "m" "z" (func $z (type $t)))
        (import "m" "g" (global $g i32)) (import "m" "mem" (memory 1))
        (table 3 funcref) (elem (i32.const 0) func $x $y $z)
        (func (export "run") (call $x (i32.const 1)) (call $y (i32.const 2)) (call $z (global.get $g)))
        (export "y_again" (func $y)) (export "y" (func $y)))"#),
    ("exported-twice-and-internal", r#"(module (import "env" "log" (func $log (param i32)))
        (func $work (export "work") (export "work_alias") (param i32) (result i32) (call $log (local.get 0)) (i32.add (local.get 0) (i32.const 1)))
        (func $internal (export "internal") (param i32) (result i32) (call $work (call $work (local.get 0))))
        (table 2 funcref) (elem (i32.const 0) func $work $internal)
        (func $s (call $log (i32.const 9))) (start $s))"#),
    ("start-and-elem", r#"(module (import "env" "init" (func $init)) (import "env" "tick" (func $tick))
        (table 1 funcref) (elem (i32.const 0) func $tick) (start $init)
        (func (export "go") (call $tick) (call $init)))"#),
];

fn check_import_replace(name: &str, wat: &str, failures: &mut Vec<JValue>, checked: &mut usize) -> Result<()> {
    let wasm = wat::parse_str(wat)?;
    let before = summarize(&walrus::Module::from_buffer(&wasm)?.emit_wasm())?;
    let n_imp_funcs = before.n_imported_funcs;
    for k in 0..n_imp_funcs {
        *checked += 1;
        let mut m = walrus::Module::from_buffer(&wasm)?;
        // the k-th imported function, in import order
        let fid = m.imports.iter().filter_map(|i| if let walrus::ImportKind::Function(f) = i.kind { Some(f) } else { None }).nth(k as usize).unwrap();
        let victim = ident(&before, k);
        let r = std::panic::catch_unwind(std::panic::AssertUnwindSafe(|| -> Result<Vec<u8>> {
            let got = m.replace_imported_func(fid, |(body, args)| { for a in args.iter() { body.local_get(*a).drop(); } body.i32_const(MARK).drop().unreachable(); })?;
            if got != fid { return Err(anyhow!("returned id differs from the replaced function's id")); }
            Ok(m.emit_wasm())
        }));
        let mut fail = |what: String| failures.push(json!({"module": name, "replaced_import_index": k, "op": "replace_imported_func", "what": what, "wat": wat}));
        let out = match r { Ok(Ok(o)) => o, Ok(Err(e)) => { fail(format!("error: {e:#}")); continue } Err(_) => { fail("panic".into()); continue } };
        if let Err(e) = wasmparser::Validator::new_with_features(wasmparser::WasmFeatures::default()).validate_all(&out) { fail(format!("output does not validate: {e}")); continue; }
        let after = summarize(&out)?;
        // exactly that import is gone
        let mut want = before.imports.clone();
        let pos = { let mut c = 0; let mut p = 0; for (i, (_, _, kind)) in before.imports.iter().enumerate() { if kind.starts_with("func") { if c == k { p = i; } c += 1; } } p };
        want.remove(pos);
        if after.imports != want { fail(format!("imports afterwards {:?}, expected {:?}", after.imports, want)); continue; }
        // same exports by name/kind; every export / call / table entry / start that named the import now reaches a local function with
        // the new body and the same signature; everything else reaches what it reached before
        let resolve_after = |f: u32| -> String { if f >= after.n_imported_funcs && is_new_body(&after.bodies[(f - after.n_imported_funcs) as usize]) { format!("NEW {}", after.func_sigs[f as usize]) } else { shallow(&after, f) } };
        let resolve_before = |f: u32| -> String { if f == k { format!("NEW {}", before.func_sigs[f as usize]) } else { shallow(&before, f) } };
        let bx: Vec<_> = before.exports.iter().map(|(n, kd, i)| (n.clone(), kd.clone(), if kd == "Func" { resolve_before(*i) } else { String::new() })).collect();
        let ax: Vec<_> = after.exports.iter().map(|(n, kd, i)| (n.clone(), kd.clone(), if kd == "Func" { resolve_after(*i) } else { String::new() })).collect();
        if bx != ax { fail(format!("exports differ: before {:?} after {:?}", bx, ax)); continue; }
        let be: Vec<Vec<String>> = before.elems.iter().map(|v| v.iter().map(|f| resolve_before(*f)).collect()).collect();
        let ae: Vec<Vec<String>> = after.elems.iter().map(|v| v.iter().map(|f| resolve_after(*f)).collect()).collect();
        if be != ae { fail(format!("table entries differ: before {:?} after {:?}", be, ae)); continue; }
        if before.start.map(resolve_before) != after.start.map(resolve_after) { fail("start function differs".into()); continue; }
        // callers: multiset of local bodies with calls resolved
        let body_ids = |s: &Summary, res: &dyn Fn(u32) -> String, skip_new: bool| -> Vec<String> {
            let mut v: Vec<String> = s.bodies.iter().enumerate().filter(|(_, b)| !(skip_new && is_new_body(b))).map(|(i, b)| {
                let ops: Vec<String> = b.iter().map(|o| if let Some(t) = o.strip_prefix("call ") { format!("call <{}>", res(t.parse().unwrap())) } else { o.clone() }).collect();
                format!("{} {:?}", s.func_sigs[i + s.n_imported_funcs as usize], ops) }).collect();
            v.sort(); v };
        let bb = body_ids(&before, &resolve_before, false);
        let ab = body_ids(&after, &resolve_after, true);
        if bb != ab { fail(format!("bodies of the other functions / their call targets differ: before {:?} after {:?}", bb, ab)); continue; }
        let n_new = after.bodies.iter().filter(|b| is_new_body(b)).count();
        if n_new != 1 { fail(format!("{n_new} functions carry the new body")); continue; }
        if let Some((i, b)) = after.bodies.iter().enumerate().find(|(_, b)| is_new_body(b)) {
            if !args_ok(b, &after.func_sigs[i + after.n_imported_funcs as usize]) { fail(format!("the argument locals handed to the builder closure are not the new function's parameters: body {:?}", b)); continue; }
        }
        let _ = victim;
    }
    Ok(())
}

fn check_export_replace(name: &str, wat: &str, failures: &mut Vec<JValue>, checked: &mut usize) -> Result<()> {
    let wasm = wat::parse_str(wat)?;
    let before = summarize(&walrus::Module::from_buffer(&wasm)?.emit_wasm())?;
    let exported: Vec<(String, u32)> = before.exports.iter().filter(|(_, k, i)| k == "Func" && *i >= before.n_imported_funcs).map(|(n, _, i)| (n.clone(), *i)).collect();
    for (ename, findex) in exported {
        *checked += 1;
        let mut m = walrus::Module::from_buffer(&wasm)?;
        let fid = m.exports.get_func(&ename)?;
        let r = std::panic::catch_unwind(std::panic::AssertUnwindSafe(|| -> Result<Vec<u8>> {
            m.replace_exported_func(fid, |(body, args)| { for a in args.iter() { body.local_get(*a).drop(); } body.i32_const(MARK).drop().unreachable(); })?;
            Ok(m.emit_wasm())
        }));
        let mut fail = |what: String| failures.push(json!({"module": name, "export": ename, "op": "replace_exported_func", "what": what, "wat": wat}));
        let out = match r { Ok(Ok(o)) => o, Ok(Err(e)) => { fail(format!("error: {e:#}")); continue } Err(_) => { fail("panic".into()); continue } };
        if let Err(e) = wasmparser::Validator::new_with_features(wasmparser::WasmFeatures::default()).validate_all(&out) { fail(format!("output does not validate: {e}")); continue; }
        let after = summarize(&out)?;
        if after.imports != before.imports { fail("imports changed".into()); continue; }
        let resolve_after = |f: u32| -> String { if f >= after.n_imported_funcs && is_new_body(&after.bodies[(f - after.n_imported_funcs) as usize]) { format!("NEW {}", after.func_sigs[f as usize]) } else { shallow(&after, f) } };
        // exactly one export that named the function is retargeted (to a function with the new body and the same signature)
        let mut retargeted = 0;
        let mut bad = None;
        for ((bn, bk, bi), (an, ak, ai)) in before.exports.iter().zip(after.exports.iter()) {
            if bn != an || bk != ak { bad = Some("export names / kinds changed".to_string()); break; }
            if bk != "Func" { continue; }
            let a = resolve_after(*ai);
            if *bi == findex && a == format!("NEW {}", before.func_sigs[findex as usize]) { retargeted += 1; }
            else if a != shallow(&before, *bi) { bad = Some(format!("export {bn} now reaches {a}, before {}", shallow(&before, *bi))); break; }
        }
        if before.exports.len() != after.exports.len() { bad = Some("number of exports changed".into()); }
        if let Some(b) = bad { fail(b); continue; }
        if retargeted != 1 { fail(format!("{retargeted} exports were retargeted, expected exactly 1")); continue; }
        if let Some((i, b)) = after.bodies.iter().enumerate().find(|(_, b)| is_new_body(b)) {
            if !args_ok(b, &after.func_sigs[i + after.n_imported_funcs as usize]) { fail(format!("the argument locals handed to the builder closure are not the new function's parameters: body {:?}", b)); continue; }
        }
        // the original function is still there for internal users: table entries, start, callers unchanged
        let be: Vec<Vec<String>> = before.elems.iter().map(|v| v.iter().map(|f| shallow(&before, *f)).collect()).collect();
        let ae: Vec<Vec<String>> = after.elems.iter().map(|v| v.iter().map(|f| resolve_after(*f)).collect()).collect();
        if be != ae { fail(format!("table entries differ: before {:?} after {:?}", be, ae)); continue; }
        if before.start.map(|f| shallow(&before, f)) != after.start.map(resolve_after) { fail("start function differs".into()); continue; }
        let mut bb: Vec<String> = (0..before.bodies.len() as u32).map(|i| ident(&before, i + before.n_imported_funcs)).collect();
        let mut ab: Vec<String> = (0..after.bodies.len() as u32).filter(|i| !is_new_body(&after.bodies[*i as usize])).map(|i| ident(&after, i + after.n_imported_funcs)).collect();
        bb.sort(); ab.sort();
        if bb != ab { fail(format!("the original functions (and their call targets) changed: before {:?} after {:?}", bb, ab)); continue; }
    }
    Ok(())
}

pub fn replace(args: &[String]) -> Result<JValue> {
    std::panic::set_hook(Box::new(|_| {}));
    let mut failures = vec![];
    let mut checked = 0;
    for (name, wat) in MODULES {
        if !args.is_empty() && !args.iter().any(|a| a == name) { continue; }
        check_import_replace(name, wat, &mut failures, &mut checked)?;
        check_export_replace(name, wat, &mut failures, &mut checked)?;
    }
    failures.truncate(8);
    Ok(json!({"violated": !failures.is_empty(), "edits_checked": checked, "failures": failures}))
}
