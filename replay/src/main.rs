//! Replay / witness programs: run the REAL walrus from /repo (path dependency) on concrete inputs.
//! Every subcommand prints one JSON object and exits 0 (property held on this input), 1 (violated) or 2 (usage).
use std::process::exit;

mod ops;
mod gen_ops;
mod arena;
mod visit;
mod entities;
mod misc;
mod offsets;
mod names;
mod config;
mod reach;
mod builder;
mod replace;
mod dwarf;
mod features;
mod gate;
mod maps;
mod edits;

fn main() {
    let args: Vec<String> = std::env::args().collect();
    if args.len() < 2 {
        eprintln!("usage: replay <subcommand> ...");
        exit(2);
    }
    let r = match args[1].as_str() {
        "wat-roundtrip" => ops::wat_roundtrip(&args[2]),
        "op" => ops::op_roundtrip(&args[2..]),
        "wasm-roundtrip" => ops::wasm_roundtrip(&args[2]),
        "cf" => ops::cf_roundtrip(&args[2..]),
        "arena" => arena::arena(&args[2..]),
        "visit" => visit::visit(&args[2..]),
        "visit-hex" => visit::visit_hex(&args[2]),
        "visit-cf" => visit::visit_cf(&args[2..]),
        "visit-deep" => visit::visit_deep(&args[2..]),
        "entities" => entities::entities(&args[2..]),
        "customs" => misc::customs(&args[2..]),
        "emit-twice" => misc::emit_twice(&args[2..]),
        "gc" => misc::gc(&args[2..]),
        "offsets" => offsets::offsets(&args[2..]),
        "names" => names::names(&args[2..]),
        "config" => config::config(&args[2..]),
        "builder" => builder::builder(&args[2..]),
        "replace" => replace::replace(&args[2..]),
        "dwarf" => dwarf::dwarf(&args[2..]),
        "features" => features::features(&args[2..]),
        "gate" => gate::gate(&args[2..]),
        "maps" => maps::maps(&args[2..]),
        "edits" => edits::edits_battery(&args[2..]),
        other => {
            eprintln!("unknown subcommand {other}");
            exit(2)
        }
    };
    match r {
        Ok(v) => {
            let bad = v.get("violated").and_then(|b| b.as_bool()).unwrap_or(false);
            println!("{}", v);
            exit(if bad { 1 } else { 0 })
        }
        Err(e) => {
            println!("{}", serde_json::json!({"error": format!("{e:#}")}));
            exit(2)
        }
    }
}
