//! Independent reachability over a wasm binary (oracle for C07: after gc nothing unreachable may remain).
use anyhow::Result;
use std::collections::{BTreeSet, VecDeque};
use wasmparser::*;

#[derive(Clone, Copy, PartialEq, Eq, PartialOrd, Ord, Debug)]
pub enum N { Func(u32), Table(u32), Mem(u32), Global(u32), Data(u32), Elem(u32), Type(u32) }

#[derive(Default)]
struct M {
    func_types: Vec<u32>,
    n_imp: [u32; 4],
    tables_imported: Vec<bool>,
    n_tables: u32, n_mems: u32, n_globals: u32, n_types: u32,
    global_inits: Vec<Vec<N>>,          // per local global (index - n_imp[3])
    bodies: Vec<Vec<N>>,                // per local function
    elems: Vec<(Option<(u32, Vec<N>)>, bool, Vec<N>)>,   // (active: (table, offset refs), declared, item refs)
    datas: Vec<Option<(u32, Vec<N>)>>,  // active: (memory, offset refs)
    roots: Vec<N>,
}

fn const_refs(e: &ConstExpr) -> Result<Vec<N>> {
    let mut v = vec![];
    let mut r = e.get_operators_reader();
    while !r.eof() {
        match r.read()? {
            Operator::GlobalGet { global_index } => v.push(N::Global(global_index)),
            Operator::RefFunc { function_index } => v.push(N::Func(function_index)),
            _ => {}
        }
    }
    Ok(v)
}

fn op_refs(op: &Operator, out: &mut Vec<N>) {
    use Operator::*;
    let s = format!("{:?}", op);
    // generic extraction from the Debug text of the operator (field names are those of wasmparser)
    let grab = |key: &str, s: &str| -> Vec<u32> {
        let mut v = vec![];
        let mut rest = s;
        while let Some(k) = rest.find(key) {
            let t: String = rest[k + key.len()..].chars().take_while(|c| c.is_ascii_digit()).collect();
            if let Ok(n) = t.parse() { v.push(n); }
            rest = &rest[k + key.len()..];
        }
        v
    };
    for f in grab("function_index: ", &s) { out.push(N::Func(f)); }
    for f in grab("type_index: ", &s) { out.push(N::Type(f)); }
    for f in grab("table_index: ", &s) { out.push(N::Table(f)); }
    for f in grab(" table: ", &s) { out.push(N::Table(f)); }
    for f in grab("dst_table: ", &s) { out.push(N::Table(f)); }
    for f in grab("src_table: ", &s) { out.push(N::Table(f)); }
    for f in grab(" mem: ", &s) { out.push(N::Mem(f)); }
    for f in grab("dst_mem: ", &s) { out.push(N::Mem(f)); }
    for f in grab("src_mem: ", &s) { out.push(N::Mem(f)); }
    for f in grab(" memory: ", &s) { out.push(N::Mem(f)); }
    for f in grab("global_index: ", &s) { out.push(N::Global(f)); }
    for f in grab("data_index: ", &s) { out.push(N::Data(f)); }
    for f in grab("elem_index: ", &s) { out.push(N::Elem(f)); }
    match op {
        Block { blockty } | Loop { blockty } | If { blockty } => { if let BlockType::FuncType(t) = blockty { out.push(N::Type(*t)); } }
        _ => {}
    }
}

fn load(wasm: &[u8]) -> Result<M> {
    let mut m = M::default();
    for p in Parser::new(0).parse_all(wasm) {
        match p? {
            Payload::TypeSection(s) => m.n_types = s.count(),
            Payload::ImportSection(s) => for i in s {
                match i?.ty {
                    TypeRef::Func(t) => { m.func_types.push(t); m.n_imp[0] += 1; }
                    TypeRef::Table(_) => { m.tables_imported.push(true); m.n_imp[1] += 1; m.n_tables += 1; }
                    TypeRef::Memory(_) => { m.n_imp[2] += 1; m.n_mems += 1; }
                    TypeRef::Global(_) => { m.n_imp[3] += 1; m.n_globals += 1; }
                    _ => {}
                }
            },
            Payload::FunctionSection(s) => for t in s { m.func_types.push(t?); },
            Payload::TableSection(s) => for t in s { t?; m.tables_imported.push(false); m.n_tables += 1; },
            Payload::MemorySection(s) => for x in s { x?; m.n_mems += 1; },
            Payload::GlobalSection(s) => for g in s { m.global_inits.push(const_refs(&g?.init_expr)?); m.n_globals += 1; },
            Payload::ExportSection(s) => for e in s {
                let e = e?;
                m.roots.push(match e.kind { ExternalKind::Func => N::Func(e.index), ExternalKind::Table => N::Table(e.index), ExternalKind::Memory => N::Mem(e.index), ExternalKind::Global => N::Global(e.index), _ => continue });
            },
            Payload::StartSection { func, .. } => m.roots.push(N::Func(func)),
            Payload::ElementSection(s) => for e in s {
                let e = e?;
                let (active, declared) = match &e.kind {
                    ElementKind::Active { table_index, offset_expr } => (Some((table_index.unwrap_or(0), const_refs(offset_expr)?)), false),
                    ElementKind::Declared => (None, true),
                    ElementKind::Passive => (None, false),
                };
                let mut items = vec![];
                match e.items {
                    ElementItems::Functions(r) => for f in r { items.push(N::Func(f?)); },
                    ElementItems::Expressions(_, r) => for x in r { items.extend(const_refs(&x?)?); },
                }
                m.elems.push((active, declared, items));
            },
            Payload::DataSection(s) => for d in s {
                m.datas.push(match d?.kind { DataKind::Active { memory_index, offset_expr } => Some((memory_index, const_refs(&offset_expr)?)), DataKind::Passive => None });
            },
            Payload::CodeSectionEntry(b) => {
                // references from syntactically dead code (after br / br_table / return / unreachable, up to the end of the enclosing
                // construct) do not count: such code never executes, and walrus does not re-emit it
                let mut v = vec![];
                let mut r = b.get_operators_reader()?;
                let mut frames: Vec<(bool, bool)> = vec![(false, false)];   // (dead on entry, dead now)
                while !r.eof() {
                    let op = r.read()?;
                    let dead = frames.last().map(|f| f.1).unwrap_or(false);
                    match &op {
                        Operator::Block { .. } | Operator::Loop { .. } | Operator::If { .. } => { if !dead { op_refs(&op, &mut v); } frames.push((dead, dead)); }
                        Operator::Else => { if let Some(f) = frames.last_mut() { f.1 = f.0; } }
                        Operator::End => { frames.pop(); }
                        Operator::Br { .. } | Operator::BrTable { .. } | Operator::Return | Operator::Unreachable
                        | Operator::ReturnCall { .. } | Operator::ReturnCallIndirect { .. } => {
                            if !dead { op_refs(&op, &mut v); }
                            if let Some(f) = frames.last_mut() { f.1 = true; }
                        }
                        _ => { if !dead { op_refs(&op, &mut v); } }
                    }
                }
                m.bodies.push(v);
            }
            _ => {}
        }
    }
    Ok(m)
}

/// per kind (funcs, tables, memories, globals, datas, elems): (present, reachable)
pub fn counts(wasm: &[u8]) -> Result<([usize; 6], [usize; 6])> {
    let m = load(wasm)?;
    let all = [m.func_types.len(), m.n_tables as usize, m.n_mems as usize, m.n_globals as usize, m.datas.len(), m.elems.len()];
    let dead = unreachable_of(&m, false)?;
    let mut r = all;
    for d in dead { match d { N::Func(_) => r[0] -= 1, N::Table(_) => r[1] -= 1, N::Mem(_) => r[2] -= 1, N::Global(_) => r[3] -= 1, N::Data(_) => r[4] -= 1, N::Elem(_) => r[5] -= 1, N::Type(_) => {} } }
    Ok((all, r))
}

/// entities of the binary that are NOT reachable from the roots of the property statement
pub fn unreachable(wasm: &[u8]) -> Result<Vec<N>> {
    let m = load(wasm)?;
    unreachable_of(&m, true)
}

fn unreachable_of(m: &M, tolerate: bool) -> Result<Vec<N>> {
    let mut seen: BTreeSet<N> = BTreeSet::new();
    let mut q: VecDeque<N> = VecDeque::new();
    let mut push = |n: N, seen: &mut BTreeSet<N>, q: &mut VecDeque<N>| { if seen.insert(n) { q.push_back(n); } };
    for r in &m.roots { push(*r, &mut seen, &mut q); }
    for (i, d) in m.datas.iter().enumerate() { if d.is_some() { push(N::Data(i as u32), &mut seen, &mut q); } }
    for (i, (active, declared, _)) in m.elems.iter().enumerate() {
        if *declared { push(N::Elem(i as u32), &mut seen, &mut q); }
        if let Some((t, _)) = active { if m.tables_imported.get(*t as usize).copied().unwrap_or(false) { push(N::Elem(i as u32), &mut seen, &mut q); } }
    }
    while let Some(n) = q.pop_front() {
        let mut next: Vec<N> = vec![];
        match n {
            N::Func(f) => {
                if let Some(t) = m.func_types.get(f as usize) { next.push(N::Type(*t)); }
                if f >= m.n_imp[0] { if let Some(b) = m.bodies.get((f - m.n_imp[0]) as usize) { next.extend(b.iter().cloned()); } }
            }
            N::Table(t) => for (i, (active, _, _)) in m.elems.iter().enumerate() { if let Some((tt, _)) = active { if *tt == t { next.push(N::Elem(i as u32)); } } },
            N::Mem(x) => for (i, d) in m.datas.iter().enumerate() { if let Some((mm, _)) = d { if *mm == x { next.push(N::Data(i as u32)); } } },
            N::Global(g) => if g >= m.n_imp[3] { if let Some(r) = m.global_inits.get((g - m.n_imp[3]) as usize) { next.extend(r.iter().cloned()); } },
            N::Data(d) => if let Some(Some((mm, off))) = m.datas.get(d as usize) { next.push(N::Mem(*mm)); next.extend(off.iter().cloned()); },
            N::Elem(e) => if let Some((active, _, items)) = m.elems.get(e as usize) {
                next.extend(items.iter().cloned());
                if let Some((t, off)) = active { next.push(N::Table(*t)); next.extend(off.iter().cloned()); }
            },
            N::Type(_) => {}
        }
        for x in next { push(x, &mut seen, &mut q); }
    }
    let mut out = vec![];
    for i in 0..m.func_types.len() as u32 { if !seen.contains(&N::Func(i)) { out.push(N::Func(i)); } }
    for i in 0..m.n_tables { if !seen.contains(&N::Table(i)) { out.push(N::Table(i)); } }
    for i in 0..m.n_mems { if !seen.contains(&N::Mem(i)) { out.push(N::Mem(i)); } }
    for i in 0..m.n_globals { if !seen.contains(&N::Global(i)) { out.push(N::Global(i)); } }
    for i in 0..m.datas.len() as u32 { if !seen.contains(&N::Data(i)) { out.push(N::Data(i)); } }
    for i in 0..m.elems.len() as u32 { if !seen.contains(&N::Elem(i)) { out.push(N::Elem(i)); } }
    for i in 0..m.n_types { if !seen.contains(&N::Type(i)) { out.push(N::Type(i)); } }
    // tolerated residue: one memory kept only because data segments are kept
    if tolerate && m.datas.len() > 0 {
        let mems: Vec<&N> = out.iter().filter(|n| matches!(n, N::Mem(_))).collect();
        if mems.len() == 1 && m.n_mems == 1 { out.retain(|n| !matches!(n, N::Mem(_))); }
    }
    Ok(out)
}
