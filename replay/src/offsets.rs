//! C11 battery: the CodeTransform handed to custom sections against the bytes actually emitted.
use anyhow::Result;
use serde_json::{json, Value};
use std::borrow::Cow;
use std::sync::{Arc, Mutex};
use walrus::{CodeTransform, CustomSection, IdsToIndices};

#[derive(Debug)]
struct Probe(Arc<Mutex<Option<(Vec<(u32, usize)>, usize, Vec<(usize, usize)>)>>>);
impl CustomSection for Probe {
    fn name(&self) -> &str { "probe" }
    fn data(&self, _: &IdsToIndices) -> Cow<[u8]> { vec![].into() }
    fn apply_code_transform(&mut self, t: &CodeTransform) {
        let pairs = t.instruction_map.iter().map(|(l, o)| (l.data(), *o)).collect();
        let ranges = t.function_ranges.iter().map(|(_, r)| (r.start, r.end)).collect();
        *self.0.lock().unwrap() = Some((pairs, t.code_section_start, ranges));
    }
}

/// (operator start offset -> Debug text) for every operator of every body, function entry ranges, payload start
fn layout(wasm: &[u8]) -> Result<(std::collections::BTreeMap<usize, String>, Vec<(usize, usize)>, usize)> {
    let mut ops = std::collections::BTreeMap::new();
    let mut entries = vec![];
    let mut start = 0;
    for p in wasmparser::Parser::new(0).parse_all(wasm) {
        match p? {
            wasmparser::Payload::CodeSectionStart { range, .. } => start = range.start,
            wasmparser::Payload::CodeSectionEntry(b) => {
                // the entry starts at its size LEB: walk back from the body start
                let body = b.range();
                let size = body.end - body.start;
                let mut leb = 1;
                let mut s = size;
                while s >= 128 { s >>= 7; leb += 1; }
                entries.push((body.start - leb, body.end));
                let mut r = b.get_operators_reader()?;
                while !r.eof() {
                    let pos = r.original_position();
                    let op = r.read()?;
                    ops.insert(pos, crate::ops::normalize(&[format!("{:?}", op)]).pop().unwrap_or_else(|| format!("{:?}", op)));
                }
            }
            _ => {}
        }
    }
    Ok((ops, entries, start))
}

fn module(nfuncs: usize, body_consts: usize) -> Vec<u8> {
    use wasm_encoder::*;
    let mut m = Module::new();
    let mut types = TypeSection::new();
    types.function([], []);
    m.section(&types);
    let mut funcs = FunctionSection::new();
    for _ in 0..nfuncs { funcs.function(0); }
    m.section(&funcs);
    let mut exports = ExportSection::new();
    for i in 0..nfuncs { exports.export(&format!("f{i}"), ExportKind::Func, i as u32); }
    m.section(&exports);
    let mut code = CodeSection::new();
    for i in 0..nfuncs {
        let mut f = Function::new([]);
        // distinct sizes so that walrus reorders; bodies on both sides of the 128-byte LEB boundary
        for k in 0..(body_consts + (i % 3)) {
            f.instruction(&Instruction::I32Const(k as i32));
            f.instruction(&Instruction::Drop);
        }
        f.instruction(&Instruction::Block(BlockType::Empty));
        f.instruction(&Instruction::I32Const(1));
        f.instruction(&Instruction::If(BlockType::Empty));
        f.instruction(&Instruction::Nop);
        f.instruction(&Instruction::Else);
        f.instruction(&Instruction::Br(1));
        f.instruction(&Instruction::End);
        f.instruction(&Instruction::End);
        // an `if` WITHOUT `else` (walrus writes an empty `else` for it: the input's `end` must pair with the output's `end`, not with that `else`)
        f.instruction(&Instruction::I32Const(1));
        f.instruction(&Instruction::If(BlockType::Empty));
        f.instruction(&Instruction::I32Const(2));
        f.instruction(&Instruction::Drop);
        f.instruction(&Instruction::End);
        f.instruction(&Instruction::End);
        code.function(&f);
    }
    m.section(&code);
    m.finish()
}

pub fn offsets(_args: &[String]) -> Result<Value> {
    std::panic::set_hook(Box::new(|_| {}));
    let mut failures = vec![];
    let mut checked = 0;
    for &(n, c) in &[(1usize, 0usize), (1, 30), (1, 41), (1, 42), (1, 43), (2, 3), (3, 40), (127, 1), (128, 1), (129, 1), (130, 44)] {
        for scenario in ["unchanged", "inserted", "inserted-blocks", "gc"] {
            checked += 1;
            let wasm = module(n, c);
            let w2 = wasm.clone();
            let r = std::panic::catch_unwind(move || -> Result<Option<String>> {
                let mut config = walrus::ModuleConfig::new();
                config.generate_producers_section(false).preserve_code_transform(true);
                let mut m = config.parse(&w2)?;
                let slot = Arc::new(Mutex::new(None));
                m.customs.add(Probe(slot.clone()));
                if scenario == "inserted" {
                    for (_id, f) in m.funcs.iter_local_mut() {
                        let b = f.builder_mut();
                        b.func_body().const_at(0, walrus::ir::Value::I32(77));
                        b.func_body().drop_at(1);
                    }
                }
                if scenario == "inserted-blocks" {
                    // whole constructs added through the builder: their instructions AND their `end` / `else` have no input location
                    for (_id, f) in m.funcs.iter_local_mut() {
                        let b = f.builder_mut();
                        b.func_body().block_at(0, None, |blk| { blk.i32_const(77).drop(); });
                        b.func_body().const_at(1, walrus::ir::Value::I32(77));
                        b.func_body().if_else_at(2, None, |t| { t.i32_const(77).drop(); }, |e| { e.i32_const(77).drop(); });
                        b.func_body().loop_at(3, None, |l| { l.i32_const(77).drop(); });
                    }
                }
                if scenario == "gc" {
                    // drop every second export, then gc
                    let victims: Vec<_> = m.exports.iter().enumerate().filter(|(i, _)| i % 2 == 1).map(|(_, e)| e.id()).collect();
                    for v in victims { m.exports.delete(v); }
                    walrus::passes::gc::run(&mut m);
                }
                let out = m.emit_wasm();
                let got = slot.lock().unwrap().clone();
                let (pairs, start, ranges) = match got { Some(x) => x, None => return Ok(Some("apply_code_transform was not called".into())) };
                let (in_ops, _, _) = layout(&w2)?;
                let (out_ops, out_entries, out_start) = layout(&out)?;
                if start != out_start {
                    return Ok(Some(format!("code_section_start = {start}, the code section payload (what code-relative addresses are measured from) starts at {out_start}")));
                }
                let mut r2 = ranges.clone();
                r2.sort();
                let mut e2 = out_entries.clone();
                e2.sort();
                if r2 != e2 {
                    return Ok(Some(format!("function ranges {:?} differ from the entries of the emitted code section {:?}", &r2[..r2.len().min(4)], &e2[..e2.len().min(4)])));
                }
                if pairs.is_empty() { return Ok(Some("empty instruction map".into())); }
                for (i, o) in &pairs {
                    let a = in_ops.get(&(*i as usize));
                    let b = out_ops.get(o);
                    match (a, b) {
                        (Some(a), Some(b)) => {
                            let strip = |s: &str| s.split(|c: char| c == '{' || c == '(').next().unwrap_or("").trim().to_string();
                            if strip(a) != strip(b) {
                                return Ok(Some(format!("pair ({i}, {o}): input has `{a}` there, output has `{b}`")));
                            }
                        }
                        (None, _) => return Ok(Some(format!("pair ({i}, {o}): no instruction starts at input offset {i}"))),
                        (_, None) => return Ok(Some(format!("pair ({i}, {o}): no instruction starts at output offset {o}"))),
                    }
                }
                if scenario.starts_with("inserted") {
                    for (_, o) in &pairs {
                        if out_ops.get(o).map(|s| s.contains("value: 77")).unwrap_or(false) {
                            return Ok(Some(format!("an inserted instruction appears in a pair (output offset {o})")));
                        }
                    }
                }
                Ok(None)
            });
            match r {
                Ok(Ok(None)) => {}
                Ok(Ok(Some(w))) => failures.push(json!({"functions": n, "body_consts": c, "scenario": scenario, "what": w})),
                Ok(Err(e)) => failures.push(json!({"functions": n, "scenario": scenario, "error": format!("{e:#}")})),
                Err(_) => failures.push(json!({"functions": n, "scenario": scenario, "what": "panic"})),
            }
        }
    }
    failures.truncate(10);
    Ok(json!({"violated": !failures.is_empty(), "cases_checked": checked, "failures": failures}))
}
