//! C16 battery: what the two traversal drivers report to a visitor with default per-instruction hooks, compared
//! with the entity operands of the input operators (counted from the decoded input, by operand kind).
use anyhow::Result;
use serde_json::{json, Value};
use std::collections::BTreeMap;
use walrus::ir::*;

#[derive(Default)]
struct Rec {
    ev: BTreeMap<&'static str, usize>,
    instrs: usize,
    starts: usize,
    ends: usize,
    seq_ids: usize,
    // the traversal as a flat event trace: "(" start of a sequence, ")" end of a sequence, otherwise the instruction kind
    trace: Vec<String>,
}
impl Rec {
    fn hit(&mut self, k: &'static str) {
        *self.ev.entry(k).or_insert(0) += 1;
    }
}
impl<'a> Visitor<'a> for Rec {
    fn start_instr_seq(&mut self, _: &'a InstrSeq) { self.starts += 1; self.trace.push("(".into()); }
    fn end_instr_seq(&mut self, _: &'a InstrSeq) { self.ends += 1; self.trace.push(")".into()); }
    fn visit_instr(&mut self, i: &'a Instr, _: &'a InstrLocId) {
        self.instrs += 1;
        self.trace.push(match i {
            Instr::Block(_) => "block".into(),
            Instr::Loop(_) => "loop".into(),
            Instr::IfElse(_) => "if".into(),
            Instr::Const(c) => format!("const {:?}", c.value),
            Instr::Drop(_) => "drop".into(),
            Instr::Br(_) => "br".into(),
            Instr::BrIf(_) => "br_if".into(),
            Instr::BrTable(_) => "br_table".into(),
            Instr::Return(_) => "return".into(),
            Instr::Unreachable(_) => "unreachable".into(),
            _ => "other".into(),
        });
    }
    fn visit_local_id(&mut self, _: &walrus::LocalId) { self.hit("local") }
    fn visit_memory_id(&mut self, _: &walrus::MemoryId) { self.hit("memory") }
    fn visit_table_id(&mut self, _: &walrus::TableId) { self.hit("table") }
    fn visit_global_id(&mut self, _: &walrus::GlobalId) { self.hit("global") }
    fn visit_function_id(&mut self, _: &walrus::FunctionId) { self.hit("func") }
    fn visit_data_id(&mut self, _: &walrus::DataId) { self.hit("data") }
    fn visit_type_id(&mut self, _: &walrus::TypeId) { self.hit("type") }
    fn visit_element_id(&mut self, _: &walrus::ElementId) { self.hit("elem") }
    fn visit_instr_seq_id(&mut self, _: &InstrSeqId) { self.seq_ids += 1 }
}
#[derive(Default)]
struct RecMut {
    seq_ids: usize,
    ev: BTreeMap<&'static str, usize>,
    instrs: usize,
}
impl RecMut {
    fn hit(&mut self, k: &'static str) {
        *self.ev.entry(k).or_insert(0) += 1;
    }
}
impl VisitorMut for RecMut {
    fn visit_instr_mut(&mut self, _: &mut Instr, _: &mut InstrLocId) { self.instrs += 1; }
    fn visit_local_id_mut(&mut self, _: &mut walrus::LocalId) { self.hit("local") }
    fn visit_memory_id_mut(&mut self, _: &mut walrus::MemoryId) { self.hit("memory") }
    fn visit_table_id_mut(&mut self, _: &mut walrus::TableId) { self.hit("table") }
    fn visit_global_id_mut(&mut self, _: &mut walrus::GlobalId) { self.hit("global") }
    fn visit_function_id_mut(&mut self, _: &mut walrus::FunctionId) { self.hit("func") }
    fn visit_data_id_mut(&mut self, _: &mut walrus::DataId) { self.hit("data") }
    fn visit_type_id_mut(&mut self, _: &mut walrus::TypeId) { self.hit("type") }
    fn visit_element_id_mut(&mut self, _: &mut walrus::ElementId) { self.hit("elem") }
    fn visit_instr_seq_id_mut(&mut self, _: &mut InstrSeqId) { self.seq_ids += 1 }
}
/// sequence-id operands of a function, counted on the IR itself without any traversal driver: block / loop 1, if 2 (consequent and
/// alternative); branch targets are labels, not operands that are visited (`skip_visit` in the IR definition)
fn seq_id_operands(f: &walrus::LocalFunction, id: InstrSeqId) -> usize {
    let mut n = 0;
    for (i, _) in &f.block(id).instrs {
        match i {
            Instr::Block(b) => n += 1 + seq_id_operands(f, b.seq),
            Instr::Loop(l) => n += 1 + seq_id_operands(f, l.seq),
            Instr::IfElse(e) => n += 2 + seq_id_operands(f, e.consequent) + seq_id_operands(f, e.alternative),
            _ => {}
        }
    }
    n
}

/// entity operands of the decoded input operators, by kind (from the operator's field names)
fn expected(ops: &[String]) -> BTreeMap<&'static str, usize> {
    let mut m = BTreeMap::new();
    let fields: [(&str, &'static str); 14] = [
        ("function_index:", "func"), ("table_index:", "table"), (" table:", "table"), ("dst_table:", "table"), ("src_table:", "table"),
        (" mem:", "memory"), ("dst_mem:", "memory"), ("src_mem:", "memory"), (" memory:", "memory"), ("global_index:", "global"),
        ("local_index:", "local"), ("data_index:", "data"), ("elem_index:", "elem"), ("type_index:", "type"),
    ];
    for o in ops {
        for (needle, kind) in fields.iter() {
            let c = o.matches(needle).count();
            if c > 0 {
                *m.entry(*kind).or_insert(0) += c;
            }
        }
    }
    m
}

pub fn visit_module(wasm: &[u8]) -> Result<Option<Value>> {
    let mut config = walrus::ModuleConfig::new();
    config.generate_producers_section(false);
    let mut m = config.parse(wasm)?;
    let fid = m.exports.get_func("f")?;
    let input_ops = crate::ops::operators(wasm)?;
    // function "f" is the last body of the skeleton / the only body of control-flow modules
    let body = crate::ops::normalize(input_ops.last().unwrap());
    let mut want = expected(&body);
    // the function entry sequence carries a (multi-value) type, reported once as the sequence-level operand
    *want.entry("type").or_insert(0) += 1;
    let want_instrs = body.iter().filter(|o| !["End", "Else"].contains(&o.as_str())).count();
    let func = m.funcs.get(fid).kind.unwrap_local();
    let mut r = Rec::default();
    dfs_in_order(&mut r, func, func.entry_block());
    let func = m.funcs.get_mut(fid).kind.unwrap_local_mut();
    let mut rm = RecMut::default();
    let entry = func.entry_block();
    dfs_pre_order_mut(&mut rm, func, entry);
    let mut problems = vec![];
    if r.ev != want {
        problems.push(format!("dfs_in_order reported {:?}, the body's entity operands are {:?}", r.ev, want));
    }
    if rm.ev != want {
        problems.push(format!("dfs_pre_order_mut reported {:?}, the body's entity operands are {:?}", rm.ev, want));
    }
    let want_seq_ids = { let f = m.funcs.get(fid).kind.unwrap_local(); seq_id_operands(f, f.entry_block()) };
    if r.seq_ids != want_seq_ids { problems.push(format!("dfs_in_order reported {} sequence-id operands, the instructions carry {}", r.seq_ids, want_seq_ids)); }
    if rm.seq_ids != want_seq_ids { problems.push(format!("dfs_pre_order_mut reported {} sequence-id operands, the instructions carry {}", rm.seq_ids, want_seq_ids)); }
    if r.starts != r.ends {
        problems.push(format!("start/end events unbalanced: {} vs {}", r.starts, r.ends));
    }
    if r.instrs != rm.instrs {
        problems.push(format!("instruction count differs between traversals: {} vs {}", r.instrs, rm.instrs));
    }
    let _ = want_instrs;
    if problems.is_empty() {
        Ok(None)
    } else {
        Ok(Some(json!({"problems": problems, "body": body})))
    }
}

/// `visit`: every operator sample of the operator battery + the control-flow programs of budget 3
pub fn visit(args: &[String]) -> Result<Value> {
    std::panic::set_hook(Box::new(|_| {}));
    let mut checked = 0usize;
    let mut failures = vec![];
    for (name, _p, instrs) in crate::gen_ops::samples() {
        if !args.is_empty() && !args.iter().any(|a| a == name) {
            continue;
        }
        for i in instrs.into_iter().take(3) {
            let ops = match crate::ops::find_operands(&i) {
                Some(o) => o,
                None => continue,
            };
            let wasm = crate::ops::skeleton(&ops, &i);
            checked += 1;
            match std::panic::catch_unwind(|| visit_module(&wasm)) {
                Ok(Ok(None)) => {}
                Ok(Ok(Some(p))) => {
                    if failures.len() < 10 {
                        failures.push(json!({"operator": name, "instruction": format!("{:?}", i), "what": p, "input_wasm_hex": crate::ops::hex(&wasm)}));
                    }
                }
                Ok(Err(e)) => {
                    if failures.len() < 10 {
                        failures.push(json!({"operator": name, "error": format!("{e:#}")}));
                    }
                }
                Err(_) => {
                    if failures.len() < 10 {
                        failures.push(json!({"operator": name, "panic": true}));
                    }
                }
            }
        }
    }
    Ok(json!({"violated": !failures.is_empty(), "modules_checked": checked, "failures": failures}))
}

pub fn visit_hex(h: &str) -> Result<Value> {
    let r = visit_module(&crate::ops::unhex(h))?;
    Ok(json!({"violated": r.is_some(), "what": r}))
}


/// the trace an in-order traversal must produce for a (normalized) input body: sequences in brackets, the
/// instruction that owns nested sequences before them, if/else as consequent then alternative
fn reference_trace(body: &[String]) -> Vec<String> {
    let mut out = vec!["(".to_string()];
    let mut open_if: Vec<bool> = vec![]; // per open frame: is it an `if` still without `else`
    for o in body {
        if o.starts_with("Block ") { out.push("block".into()); out.push("(".into()); open_if.push(false); }
        else if o.starts_with("Loop ") { out.push("loop".into()); out.push("(".into()); open_if.push(false); }
        else if o.starts_with("If ") { out.push("if".into()); out.push("(".into()); open_if.push(true); }
        else if o == "Else" { out.push(")".into()); out.push("(".into()); if let Some(l) = open_if.last_mut() { *l = false; } }
        else if o == "End" {
            match open_if.pop() {
                Some(true) => { out.push(")".into()); out.push("(".into()); out.push(")".into()); } // implicit empty alternative
                _ => out.push(")".into()),
            }
        }
        else if o.starts_with("I32Const") { let v: String = o.split("value: ").nth(1).unwrap_or("").chars().filter(|c| c.is_ascii_digit() || *c == '-').collect(); out.push(format!("const I32({})", v)); }
        else if o == "Drop" { out.push("drop".into()); }
        else if o.starts_with("Br {") { out.push("br".into()); }
        else if o.starts_with("BrIf") { out.push("br_if".into()); }
        else if o.starts_with("BrTable") { out.push("br_table".into()); }
        else if o == "Return" { out.push("return".into()); }
        else if o == "Unreachable" { out.push("unreachable".into()); }
        else { out.push("other".into()); }
    }
    out
}

/// `visit-cf BUDGET DEPTH`: in-order trace of dfs_in_order against the reference flattening; the mutable traversal
/// must visit the same number of instructions
pub fn visit_cf(args: &[String]) -> Result<Value> {
    std::panic::set_hook(Box::new(|_| {}));
    let budget: usize = args.get(0).map(|s| s.parse().unwrap_or(3)).unwrap_or(3);
    let depth: u32 = args.get(1).map(|s| s.parse().unwrap_or(3)).unwrap_or(3);
    let mods = crate::ops::cf_modules(budget, depth);
    let mut failures = vec![];
    let mut checked = 0usize;
    for wasm in &mods {
        checked += 1;
        let r = std::panic::catch_unwind(|| -> Result<Option<Value>> {
            let mut config = walrus::ModuleConfig::new();
            config.generate_producers_section(false);
            let mut m = config.parse(wasm)?;
            let fid = m.exports.get_func("f")?;
            let body = crate::ops::normalize_walrus(crate::ops::operators(wasm)?.last().unwrap());
            let want = reference_trace(&body);
            let func = m.funcs.get(fid).kind.unwrap_local();
            let mut r = Rec::default();
            dfs_in_order(&mut r, func, func.entry_block());
            let func = m.funcs.get_mut(fid).kind.unwrap_local_mut();
            let mut rm = RecMut::default();
            let entry = func.entry_block();
            dfs_pre_order_mut(&mut rm, func, entry);
            if r.trace != want {
                return Ok(Some(json!({"what": "dfs_in_order trace differs from the in-order flattening of the body", "trace": r.trace, "expected": want, "body": body})));
            }
            if rm.instrs != r.instrs {
                return Ok(Some(json!({"what": format!("dfs_pre_order_mut visited {} instructions, dfs_in_order {}", rm.instrs, r.instrs), "body": body})));
            }
            // the sequence-id operands (block / loop 1, if 2: consequent and alternative), counted on the IR without a driver
            let want_seq_ids = { let f = m.funcs.get(fid).kind.unwrap_local(); seq_id_operands(f, f.entry_block()) };
            if r.seq_ids != want_seq_ids || rm.seq_ids != want_seq_ids {
                return Ok(Some(json!({"what": format!("the instructions carry {} sequence-id operands; dfs_in_order reported {}, dfs_pre_order_mut {}", want_seq_ids, r.seq_ids, rm.seq_ids), "body": body})));
            }
            Ok(None)
        });
        match r {
            Ok(Ok(None)) => {}
            Ok(Ok(Some(v))) => { if failures.len() < 10 { failures.push(json!({"what": v, "input_wasm_hex": crate::ops::hex(wasm)})); } }
            Ok(Err(e)) => { if failures.len() < 10 { failures.push(json!({"error": format!("{e:#}"), "input_wasm_hex": crate::ops::hex(wasm)})); } }
            Err(_) => { if failures.len() < 10 { failures.push(json!({"panic": true, "input_wasm_hex": crate::ops::hex(wasm)})); } }
        }
    }
    // sequences with a multi-value type: both drivers report the sequence's type id once per sequence (empty sequences included)
    for (name, text) in MV_SHAPES {
        checked += 1;
        let r = std::panic::catch_unwind(|| -> Result<Option<Value>> {
            let wasm = wat::parse_str(text)?;
            let mut config = walrus::ModuleConfig::new();
            config.generate_producers_section(false);
            let mut m = config.parse(&wasm)?;
            let fid = m.exports.get_func("f")?;
            let func = m.funcs.get(fid).kind.unwrap_local();
            // independent count: plain recursion over the tree through the public accessors
            fn mv_seqs(f: &walrus::LocalFunction, id: InstrSeqId) -> usize {
                let seq = f.block(id);
                let mut n = if let InstrSeqType::MultiValue(_) = seq.ty { 1 } else { 0 };
                for (i, _) in seq.instrs.iter() { match i {
                    Instr::Block(b) => n += mv_seqs(f, b.seq), Instr::Loop(l) => n += mv_seqs(f, l.seq),
                    Instr::IfElse(ie) => { n += mv_seqs(f, ie.consequent); n += mv_seqs(f, ie.alternative); } _ => {} } }
                n
            }
            let want = mv_seqs(func, func.entry_block());
            let mut r = Rec::default();
            dfs_in_order(&mut r, func, func.entry_block());
            let got = r.ev.get("type").cloned().unwrap_or(0);
            if got != want { return Ok(Some(json!({"what": format!("dfs_in_order reported {got} sequence type ids, the tree has {want} multi-value sequences"), "module": name}))); }
            let func = m.funcs.get_mut(fid).kind.unwrap_local_mut();
            let entry = func.entry_block();
            let mut rm = RecMut::default();
            dfs_pre_order_mut(&mut rm, func, entry);
            let got = rm.ev.get("type").cloned().unwrap_or(0);
            if got != want { return Ok(Some(json!({"what": format!("dfs_pre_order_mut reported {got} sequence type ids, the tree has {want} multi-value sequences"), "module": name}))); }
            // and a gc + emit of the module still works (the type of an empty multi-value block is only named by that block)
            walrus::passes::gc::run(&mut m);
            let out = m.emit_wasm();
            let mut f = wasmparser::WasmFeatures::default(); f.insert(wasmparser::WasmFeatures::MULTI_VALUE);
            wasmparser::Validator::new_with_features(f).validate_all(&out).map_err(|e| anyhow::anyhow!("after gc the output does not validate: {e}"))?;
            Ok(None)
        });
        match r {
            Ok(Ok(None)) => {}
            Ok(Ok(Some(v))) => failures.push(json!({"what": v})),
            Ok(Err(e)) => failures.push(json!({"error": format!("{e:#}"), "module": name})),
            Err(_) => failures.push(json!({"panic": true, "module": name})),
        }
    }
    Ok(json!({"violated": !failures.is_empty(), "programs_checked": checked, "budget": budget, "max_depth": depth, "failures": failures}))
}
const MV_SHAPES: &[(&str, &str)] = &[
    ("empty-mv-block", r#"(module (func (export "f") (param i32 i32) (result i32 i32) (local.get 0) (local.get 1) (block (param i32 i32) (result i32 i32))))"#),
    ("empty-mv-loop", r#"(module (func (export "f") (param i64) (result i64 i64) (local.get 0) (local.get 0) (loop (param i64 i64) (result i64 i64))))"#),
    ("empty-mv-block-in-loop-in-if", r#"(module (func (export "f") (param i32) (result i32 i32) (local.get 0) (local.get 0)
        (if (param i32 i32) (result i32 i32) (local.get 0) (then (loop (param i32 i32) (result i32 i32) (block (param i32 i32) (result i32 i32)))) (else))))"#),
    ("mv-blocks-with-bodies", r#"(module (func (export "f") (result i32 i32) (block (result i32 i32) (i32.const 1) (i32.const 2)) (block (param i32 i32) (result i32 i32) (nop))
        (loop (param i32 i32) (result i32 i32) (block (param i32 i32) (result i32 i32) (drop) (i32.const 3)))))"#),
    ("single-value-only", r#"(module (func (export "f") (result i32) (block (result i32) (loop (result i32) (i32.const 1)))))"#),
];

/// `visit-deep DEPTH`: nesting depth DEPTH through blocks, loops and both arms of if/else, both traversals, on a
/// thread with a 2 MiB stack: call-stack use must not grow with nesting depth
pub fn visit_deep(args: &[String]) -> Result<Value> {
    use wasm_encoder::*;
    let depth: usize = args.get(0).map(|s| s.parse().unwrap_or(100_000)).unwrap_or(100_000);
    let mut failures = vec![];
    for shape in ["block", "loop", "if-then", "if-else"] {
        let mut m = Module::new();
        let mut types = TypeSection::new();
        types.function([], []);
        m.section(&types);
        let mut funcs = FunctionSection::new();
        funcs.function(0);
        m.section(&funcs);
        let mut exports = ExportSection::new();
        exports.export("f", ExportKind::Func, 0);
        m.section(&exports);
        let mut code = CodeSection::new();
        let mut f = Function::new([]);
        for _ in 0..depth {
            match shape {
                "block" => { f.instruction(&Instruction::Block(BlockType::Empty)); }
                "loop" => { f.instruction(&Instruction::Loop(BlockType::Empty)); }
                "if-then" => { f.instruction(&Instruction::I32Const(1)); f.instruction(&Instruction::If(BlockType::Empty)); }
                _ => { f.instruction(&Instruction::I32Const(1)); f.instruction(&Instruction::If(BlockType::Empty)); f.instruction(&Instruction::Else); }
            }
        }
        for _ in 0..depth {
            f.instruction(&Instruction::End);
        }
        f.instruction(&Instruction::End);
        code.function(&f);
        m.section(&code);
        let wasm = m.finish();
        // the nesting itself is built on a big stack (wasmparser's validator and walrus's parser are not under test here)
        let shape_s = shape.to_string();
        let parsed = std::thread::Builder::new().stack_size(1 << 30).spawn(move || {
            let mut config = walrus::ModuleConfig::new();
            config.generate_producers_section(false);
            config.parse(&wasm)
        })?.join();
        let mut module = match parsed {
            Ok(Ok(m)) => m,
            Ok(Err(e)) => { failures.push(json!({"shape": shape_s, "error": format!("parse: {e:#}")})); continue; }
            Err(_) => { failures.push(json!({"shape": shape_s, "error": "parse panicked"})); continue; }
        };
        // the traversals run in a child process-like guard: a small-stack thread; a stack overflow aborts the process,
        // so each shape is run in a separate process by the caller (`visit-deep-one`)
        let fid = module.exports.get_func("f")?;
        let h = std::thread::Builder::new().stack_size(2 << 20).spawn(move || {
            let func = module.funcs.get(fid).kind.unwrap_local();
            let mut r = Rec::default();
            dfs_in_order(&mut r, func, func.entry_block());
            let func = module.funcs.get_mut(fid).kind.unwrap_local_mut();
            let mut rm = RecMut::default();
            let e = func.entry_block();
            dfs_pre_order_mut(&mut rm, func, e);
            (r.starts, r.ends, r.instrs, rm.instrs)
        })?;
        match h.join() {
            Ok((s, e, i, im)) => {
                if s != e || i != im {
                    failures.push(json!({"shape": shape_s, "what": format!("starts {s} ends {e} instrs {i} mut-instrs {im}")}));
                }
            }
            Err(_) => failures.push(json!({"shape": shape_s, "what": "traversal panicked"})),
        }
    }
    Ok(json!({"violated": !failures.is_empty(), "depth": depth, "shapes": 4, "stack_bytes": 2 << 20, "failures": failures}))
}
