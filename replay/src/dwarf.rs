//! `dwarf`: C10 — with DWARF generation on, line rows follow their instructions and subprogram ranges follow their
//! functions.  DWARF is synthesized with gimli::write (one row per input instruction, one subprogram per function), attached
//! to the input, and read back from the output with gimli::read; the emitted code is decoded independently with wasmparser.
use anyhow::{anyhow, bail, Result};
use gimli::write::{Address, AttributeValue, DwarfUnit, EndianVec, LineProgram, LineString, Sections};
use gimli::{Encoding, Format, LineEncoding, LittleEndian};
use serde_json::json;
use std::collections::{BTreeMap, BTreeSet};
use std::ops::Range;
use wasmparser::{Parser, Payload};
type JValue = serde_json::Value;

pub struct Layout {
    code_start: usize,
    /// export name -> entry range (size prefix included) and body range, code-relative
    entries: BTreeMap<String, (Range<u64>, Range<u64>)>,
    /// export name -> (code-relative operator offset -> operator name)
    instrs: BTreeMap<String, BTreeMap<u64, String>>,
    customs: BTreeMap<String, Vec<u8>>,
}

fn opname(op: &wasmparser::Operator) -> String { let s = format!("{:?}", op); s.split(|c: char| c == ' ' || c == '{' || c == '(').next().unwrap_or("").to_string() }

pub fn layout(wasm: &[u8]) -> Result<Layout> {
    let mut code_start = 0;
    let mut n_imports = 0u32;
    let mut entries = vec![];
    let mut exports = BTreeMap::new();
    let mut customs = BTreeMap::new();
    for p in Parser::new(0).parse_all(wasm) {
        match p? {
            Payload::ImportSection(s) => for i in s { if let wasmparser::TypeRef::Func(_) = i?.ty { n_imports += 1; } },
            Payload::CodeSectionStart { range, .. } => code_start = range.start,
            Payload::CodeSectionEntry(body) => {
                let mut instrs = BTreeMap::new();
                for op in body.get_operators_reader()?.into_iter_with_offsets() { let (op, off) = op?; instrs.insert((off - code_start) as u64, opname(&op)); }
                let r = body.range();
                let size = r.end - r.start;
                let mut leb = 1; let mut s = size; while s >= 128 { s >>= 7; leb += 1; }
                entries.push((((r.start - leb - code_start) as u64..(r.end - code_start) as u64), ((r.start - code_start) as u64..(r.end - code_start) as u64), instrs));
            }
            Payload::ExportSection(s) => for e in s { let e = e?; if e.kind == wasmparser::ExternalKind::Func { exports.insert(e.name.to_string(), e.index); } },
            Payload::CustomSection(s) => { customs.insert(s.name().to_string(), s.data().to_vec()); }
            _ => {}
        }
    }
    let mut l = Layout { code_start, entries: BTreeMap::new(), instrs: BTreeMap::new(), customs };
    for (name, index) in exports {
        let (e, b, i) = entries[(index - n_imports) as usize].clone();
        l.entries.insert(name.clone(), (e, b));
        l.instrs.insert(name, i);
    }
    Ok(l)
}

fn leb(mut n: usize, out: &mut Vec<u8>) { loop { let b = (n & 0x7f) as u8; n >>= 7; if n == 0 { out.push(b); break; } out.push(b | 0x80); } }
fn append_custom(wasm: &mut Vec<u8>, name: &str, data: &[u8]) {
    let mut payload = Vec::new();
    leb(name.len(), &mut payload); payload.extend_from_slice(name.as_bytes()); payload.extend_from_slice(data);
    wasm.push(0); leb(payload.len(), wasm); wasm.extend_from_slice(&payload);
}

/// DWARF 5 only: make every row of the line program name file 0 (the unit's primary file).  gimli's writer cannot be asked for file 0,
/// so the rows are written against a second file entry (`DW_LNS_set_file 2`) and the operand is patched; the patched program is re-read with
/// gimli's reader and must have the same rows, all naming file 0.
pub static ROWS_NAME_FILE0: std::sync::atomic::AtomicBool = std::sync::atomic::AtomicBool::new(false);
/// file table layout: clang's (file 1 is a copy of the primary file) or a table without such a copy (DWARF 5: 0 = unit.c, 1.. = headers)
pub static CLANG_FILE_LAYOUT: std::sync::atomic::AtomicBool = std::sync::atomic::AtomicBool::new(true);
/// what the input says about files: line -> name of the file its row names; function -> name of the file of its DW_AT_decl_file
pub static FILE_EXPECT: std::sync::Mutex<(BTreeMap<u64, String>, BTreeMap<String, String>)> = std::sync::Mutex::new((BTreeMap::new(), BTreeMap::new()));

fn rows_of(debug_line: &[u8], debug_line_str: &[u8], debug_str: &[u8], addr_size: u8) -> Result<Vec<(u64, u64, u64, bool)>> {
    let dl = gimli::DebugLine::new(debug_line, LittleEndian);
    let _ = (debug_line_str, debug_str);
    let prog = dl.program(gimli::DebugLineOffset(0), addr_size, None, None).map_err(|e| anyhow!("re-reading the patched line program: {e}"))?;
    let mut rows = prog.rows();
    let mut out = vec![];
    while let Some((_, r)) = rows.next_row().map_err(|e| anyhow!("re-reading the patched line program: {e}"))? {
        out.push((r.address(), r.line().map(|l| l.get()).unwrap_or(0), r.file_index(), r.end_sequence()));
    }
    Ok(out)
}

/// -> (wasm with DWARF, line -> (function, operator name))
pub fn attach(mut wasm: Vec<u8>, l: &Layout, version: u16, spanning: bool, lowpc_at_entry: bool) -> Result<(Vec<u8>, BTreeMap<u64, (String, String)>)> {
    let encoding = Encoding { format: Format::Dwarf32, version, address_size: 4 };
    let mut dwarf = DwarfUnit::new(encoding);
    let comp_dir = LineString::String(b"/src".to_vec());
    let comp_file = LineString::String(b"unit.c".to_vec());
    let mut program = LineProgram::new(encoding, LineEncoding::default(), comp_dir, comp_file.clone(), None);
    let dir = program.default_directory();
    let file0 = version >= 5 && ROWS_NAME_FILE0.load(std::sync::atomic::Ordering::SeqCst);
    // (with gimli's writer the first added file is file 1 in both versions; in version 5 file 0 is the primary file written from `comp_file`)
    let clang = CLANG_FILE_LAYOUT.load(std::sync::atomic::Ordering::SeqCst);
    // base file of the rows: the primary file -- as file 1 (its copy, clang layout), as `unit_again.c` (no copy in the table), or, in the
    // file-0 mode, a placeholder entry whose number is patched to 0 below
    let mut table: Vec<(gimli::write::FileId, &str)> = vec![];
    let base = if file0 {
        // (the placeholder must not be file 1: the file register starts at 1, so rows naming file 1 carry no DW_LNS_set_file to patch)
        if clang { table.push((program.add_file(comp_file.clone(), dir, None), "unit.c")); } else { table.push((program.add_file(LineString::String(b"a.h".to_vec()), dir, None), "a.h")); }
        let f = program.add_file(LineString::String(b"placeholder.c".to_vec()), dir, None); table.push((f, "unit.c")); f
    } else if clang { let f = program.add_file(comp_file.clone(), dir, None); table.push((f, "unit.c")); f }
    else { let f = program.add_file(LineString::String(b"a.h".to_vec()), dir, None); table.push((f, "a.h")); f };
    let base_name = table.last().unwrap().1;
    let placeholder_raw: u8 = table.len() as u8;   // the writer numbers added files 1, 2, ...
    let hb = program.add_file(LineString::String(b"b.h".to_vec()), dir, None);
    let hc = program.add_file(LineString::String(b"c.h".to_vec()), dir, None);
    let file_of = |line: u64| -> (gimli::write::FileId, &str) { match line % 3 { 1 => (hb, "b.h"), 2 => (hc, "c.h"), _ => (base, base_name) } };
    let mut row_files: BTreeMap<u64, String> = BTreeMap::new();
    let mut decl_files: BTreeMap<String, String> = BTreeMap::new();
    let mut lines = BTreeMap::new();
    let mut next_line = 1u64;
    // functions in input address order
    let mut order: Vec<&String> = l.entries.keys().collect();
    order.sort_by_key(|n| l.entries[*n].0.start);
    if spanning {
        let first = l.entries[order[0]].1.start;
        program.begin_sequence(Some(Address::Constant(first)));
        for name in &order {
            for (off, op) in &l.instrs[*name] {
                program.row().address_offset = off - first; program.row().file = file_of(next_line).0; row_files.insert(next_line, file_of(next_line).1.to_string()); program.row().line = next_line; program.generate_row();
                lines.insert(next_line, ((*name).clone(), op.clone())); next_line += 1;
            }
        }
        program.end_sequence(l.entries[order[order.len() - 1]].1.end - first);
    } else {
        for name in &order {
            let body = &l.entries[*name].1;
            program.begin_sequence(Some(Address::Constant(body.start)));
            for (off, op) in &l.instrs[*name] {
                program.row().address_offset = off - body.start; program.row().file = file_of(next_line).0; row_files.insert(next_line, file_of(next_line).1.to_string()); program.row().line = next_line; program.generate_row();
                lines.insert(next_line, ((*name).clone(), op.clone())); next_line += 1;
            }
            program.end_sequence(body.end - body.start);
        }
    }
    dwarf.unit.line_program = program;
    let root = dwarf.unit.root();
    {
        let e = dwarf.unit.get_mut(root);
        e.set(gimli::DW_AT_name, AttributeValue::String(b"unit.c".to_vec()));
        e.set(gimli::DW_AT_comp_dir, AttributeValue::String(b"/src".to_vec()));
        e.set(gimli::DW_AT_stmt_list, AttributeValue::LineProgramRef);
        e.set(gimli::DW_AT_low_pc, AttributeValue::Address(Address::Constant(0)));
    }
    for name in &order {
        let (entry, body) = &l.entries[*name];
        let start = if lowpc_at_entry { entry.start } else { body.start };
        let id = dwarf.unit.add(root, gimli::DW_TAG_subprogram);
        let e = dwarf.unit.get_mut(id);
        e.set(gimli::DW_AT_name, AttributeValue::String(name.as_bytes().to_vec()));
        e.set(gimli::DW_AT_low_pc, AttributeValue::Address(Address::Constant(start)));
        e.set(gimli::DW_AT_high_pc, AttributeValue::Udata(body.end - start));
        // declared in one of the headers, by turns
        let (df, dn) = if decl_files.len() % 2 == 0 { (hb, "b.h") } else { (hc, "c.h") };
        e.set(gimli::DW_AT_decl_file, AttributeValue::FileIndex(Some(df)));
        decl_files.insert((*name).clone(), dn.to_string());
    }
    *FILE_EXPECT.lock().unwrap() = (row_files, decl_files);
    let mut sections = Sections::new(EndianVec::new(LittleEndian));
    dwarf.write(&mut sections).map_err(|e| anyhow!("gimli write: {e}"))?;
    let mut secs: Vec<(String, Vec<u8>)> = vec![];
    sections.for_each(|id, data| -> std::result::Result<(), ()> { if !data.slice().is_empty() { secs.push((id.name().to_string(), data.slice().to_vec())); } Ok(()) }).unwrap();
    if file0 {
        let get = |n: &str| secs.iter().find(|(k, _)| k == n).map(|(_, d)| d.clone()).unwrap_or_default();
        let before = rows_of(&get(".debug_line"), &get(".debug_line_str"), &get(".debug_str"), 4)?;
        let line = &mut secs.iter_mut().find(|(n, _)| n == ".debug_line").ok_or_else(|| anyhow!("no .debug_line"))?.1;
        let header_length = u32::from_le_bytes([line[8], line[9], line[10], line[11]]) as usize;
        let prog = 12 + header_length;
        let mut k = prog;
        while k + 1 < line.len() { if line[k] == 0x04 && line[k + 1] == placeholder_raw { line[k + 1] = 0x00; k += 2; } else { k += 1; } }
        let after = rows_of(&get_from(&secs, ".debug_line"), &get_from(&secs, ".debug_line_str"), &get_from(&secs, ".debug_str"), 4)?;
        // same rows; exactly the rows of the placeholder file now name file 0, every other row names what it named
        let same = before.len() == after.len() && before.iter().zip(after.iter()).all(|(b, a)| b.0 == a.0 && b.1 == a.1 && b.3 == a.3
            && (b.3 || (if b.2 == placeholder_raw as u64 { a.2 == 0 } else { a.2 == b.2 })));
        if !same || !after.iter().any(|r| !r.3 && r.2 == 0) { bail!("could not synthesize DWARF 5 rows naming file 0 (patched program does not read back as intended)"); }
    }
    for (n, d) in &secs { append_custom(&mut wasm, n, d); }
    Ok((wasm, lines))
}

fn get_from(secs: &[(String, Vec<u8>)], n: &str) -> Vec<u8> { secs.iter().find(|(k, _)| k == n).map(|(_, d)| d.clone()).unwrap_or_default() }

struct Facts { subprograms: BTreeMap<String, Range<u64>>, rows: Vec<(u64, u64)>, ends: Vec<u64>, row_file: BTreeMap<u64, String>, decl_file: BTreeMap<String, String> }

fn read(l: &Layout) -> Result<Facts> {
    let load = |id: gimli::SectionId| -> std::result::Result<gimli::EndianSlice<'_, LittleEndian>, gimli::Error> {
        Ok(gimli::EndianSlice::new(l.customs.get(id.name()).map(|v| &v[..]).unwrap_or(&[]), LittleEndian))
    };
    let dwarf = gimli::Dwarf::load(load).map_err(|e| anyhow!("{e}"))?;
    let mut f = Facts { subprograms: BTreeMap::new(), rows: vec![], ends: vec![], row_file: BTreeMap::new(), decl_file: BTreeMap::new() };
    let mut units = dwarf.units();
    while let Some(h) = units.next().map_err(|e| anyhow!("{e}"))? {
        let unit = dwarf.unit(h).map_err(|e| anyhow!("{e}"))?;
        let mut entries = unit.entries();
        while let Some((_, e)) = entries.next_dfs().map_err(|e| anyhow!("{e}"))? {
            if e.tag() != gimli::DW_TAG_subprogram { continue; }
            let name = match e.attr_value(gimli::DW_AT_name).map_err(|e| anyhow!("{e}"))? {
                Some(gimli::AttributeValue::String(s)) => s.to_string().map_err(|e| anyhow!("{e}"))?.to_string(),
                Some(gimli::AttributeValue::DebugStrRef(o)) => dwarf.debug_str.get_str(o).map_err(|e| anyhow!("{e}"))?.to_string().map_err(|e| anyhow!("{e}"))?.to_string(),
                other => return Err(anyhow!("unexpected name form {:?}", other)),
            };
            let low = match e.attr_value(gimli::DW_AT_low_pc).map_err(|e| anyhow!("{e}"))? { Some(gimli::AttributeValue::Addr(a)) => a, other => return Err(anyhow!("subprogram {name}: low_pc {:?}", other)) };
            let high = match e.attr_value(gimli::DW_AT_high_pc).map_err(|e| anyhow!("{e}"))? { Some(gimli::AttributeValue::Udata(n)) => low.wrapping_add(n), Some(gimli::AttributeValue::Addr(a)) => a, other => return Err(anyhow!("subprogram {name}: high_pc {:?}", other)) };
            if let Some(gimli::AttributeValue::FileIndex(k)) = e.attr_value(gimli::DW_AT_decl_file).map_err(|e| anyhow!("{e}"))? {
                f.decl_file.insert(name.clone(), file_name(&dwarf, &unit, k)?);
            }
            f.subprograms.insert(name, low..high);
        }
        if let Some(program) = unit.line_program.clone() {
            let mut rows = program.rows();
            while let Some((_, row)) = rows.next_row().map_err(|e| anyhow!("{e}"))? {
                if row.end_sequence() { f.ends.push(row.address()); } else { let line = row.line().map(|l| l.get()).unwrap_or(0); f.rows.push((line, row.address())); f.row_file.insert(line, file_name(&dwarf, &unit, row.file_index())?); }
            }
        }
    }
    Ok(f)
}

/// name of file `k` of the unit's line program (as a debugger resolves a file number)
fn file_name<'a>(dwarf: &gimli::Dwarf<gimli::EndianSlice<'a, LittleEndian>>, unit: &gimli::Unit<gimli::EndianSlice<'a, LittleEndian>>, k: u64) -> Result<String> {
    let program = unit.line_program.as_ref().ok_or_else(|| anyhow!("no line program"))?;
    let file = program.header().file(k).ok_or_else(|| anyhow!("file number {k} is not in the file table of the output"))?;
    let s = dwarf.attr_string(unit, file.path_name()).map_err(|e| anyhow!("{e}"))?;
    Ok(s.to_string().map_err(|e| anyhow!("{e}"))?.to_string())
}

/// three local functions of very different sizes (walrus emits the largest first, so they move); `big` has a body of more than
/// 128 bytes (two-byte size prefix); no unreachable code
fn module_text(pad_small: usize, pad_big: usize) -> String {
    let (extra_imports, extra_funcs) = *EXTRA_FUNCTIONS.lock().unwrap();
    let pad = |n: usize| (0..n).map(|k| format!("(call $i1 (i32.const {}))", k)).collect::<Vec<_>>().join(" ");
    format!(r#"(module
      (import "env" "i0" (func $i0)) (import "env" "i1" (func $i1 (param i32))){}
      (func (export "small") (call $i0) {})
      (func (export "victim") (call $i1 (i32.const 99)) (call $i0))
      (func (export "mid") (param i32) (result i32) (local i32)
        (local.set 1 (i32.mul (local.get 0) (i32.const 3))) (call $i1 (local.get 1))
        (block (loop (br_if 1 (local.get 0)) (call $i0) (br_if 0 (local.get 1))))
        (if (local.get 0) (then (call $i0)) (else (call $i1 (i32.const 5))))
        (i32.sub (local.get 1) (i32.const 1000)))
      (func (export "dead") (result i32) (call $i0) (call $i1 (i32.const 7)) (return (i32.add (i32.const 20) (i32.const 22))) (call $i1 (i32.const 8)) (i32.const 9))
      (func (export "big") {} (call $i0)){}{})"#,
      (0..extra_imports).map(|k| format!(" (import \"env\" \"x{k}\" (func))")).collect::<String>(), pad(pad_small), pad(pad_big),
      if NOP_FIRST.load(std::sync::atomic::Ordering::SeqCst) { " (func (export \"nopfirst\") (nop) (call $i0) (call $i1 (i32.const 3)))" } else { "" },
      (0..extra_funcs).map(|k| format!(" (func (export \"x{k}\") (call $i1 (i32.const {k})) (call $i0))")).collect::<String>())
}
/// more imported / defined functions, so that the function counts (defined alone, and defined + imported) sit on either side of 128,
/// where the LEB128 function count in front of the first code entry grows to two bytes
pub static EXTRA_FUNCTIONS: std::sync::Mutex<(usize, usize)> = std::sync::Mutex::new((0, 0));
/// add a function whose FIRST instruction is a `nop` (walrus does not re-emit nops) and that declares no locals
pub static NOP_FIRST: std::sync::atomic::AtomicBool = std::sync::atomic::AtomicBool::new(false);

fn run(version: u16, spanning: bool, lowpc_at_entry: bool, scenario: &str, pad_small: usize, pad_big: usize) -> Result<Option<String>> {
    let wasm = wat::parse_str(&module_text(pad_small, pad_big))?;
    let input = layout(&wasm)?;
    let (wasm, lines) = attach(wasm, &input, version, spanning, lowpc_at_entry)?;
    // rows of instructions that walrus does not emit: the unreachable tail of `dead` (between its `return` and its final `end`)
    let mut dead_lines: BTreeSet<u64> = BTreeSet::new();
    {
        let rows: Vec<(u64, &str)> = lines.iter().filter(|(_, (f, _))| f == "dead").map(|(l, (_, o))| (*l, o.as_str())).collect();
        let mut dead = false;
        for (i, (line, op)) in rows.iter().enumerate() { if dead && i + 1 != rows.len() { dead_lines.insert(*line); } dead |= *op == "Return"; }
        if dead_lines.len() != 3 { return Err(anyhow!("battery self-check: expected 3 unreachable instructions in `dead`, found {}", dead_lines.len())); }
    }
    // ... and nops, which walrus does not re-emit either
    for (l, (_, o)) in &lines { if o == "Nop" { dead_lines.insert(*l); } }
    let mut config = walrus::ModuleConfig::new();
    config.generate_dwarf(true).generate_producers_section(false);
    let mut m = config.parse(&wasm)?;
    let mut removed_funcs: BTreeSet<String> = BTreeSet::new();
    match scenario {
        "gc" => {
            let e = m.exports.iter().find(|e| e.name == "victim").map(|e| e.id()).unwrap();
            m.exports.delete(e);
            walrus::passes::gc::run(&mut m);
            removed_funcs.insert("victim".into());
        }
        "inserted" => {
            for (_id, f) in m.funcs.iter_local_mut() {
                let b = f.builder_mut();
                b.func_body().const_at(0, walrus::ir::Value::I32(77));
                b.func_body().drop_at(1);
            }
        }
        _ => {}
    }
    let out = m.emit_wasm();
    wasmparser::Validator::new_with_features(wasmparser::WasmFeatures::default()).validate_all(&out).map_err(|e| anyhow!("output does not validate: {e}"))?;
    let output = layout(&out)?;
    let facts = read(&output)?;
    let in_any = |a: u64| output.entries.values().any(|(e, _)| e.start <= a && a < e.end);
    // subprograms
    for (name, (in_entry, in_body)) in &input.entries {
        let sp = match facts.subprograms.get(name) { Some(s) => s.clone(), None => { if removed_funcs.contains(name) { continue; } return Ok(Some(format!("subprogram {name} disappeared"))); } };
        if removed_funcs.contains(name) {
            if in_any(sp.start) { return Ok(Some(format!("subprogram {name} belongs to a removed function but its low_pc {} lies inside emitted code", sp.start))); }
            continue;
        }
        let (e, b) = &output.entries[name];
        let want_start = if lowpc_at_entry { e.start } else { b.start };
        // (an entry-relative low_pc keeps its distance from the entry start; the size prefix may change length)
        let alt_start = e.start + ((if lowpc_at_entry { in_entry.start } else { in_body.start }) - in_entry.start);
        // with instructions inserted at the very front, a low_pc that was attached to the first original instruction (one byte
        // before it) may stay attached to it: the range still lies in, and ends with, the same function
        let ok_inserted = scenario == "inserted" && e.start <= sp.start && sp.start < b.end && sp.end == b.end
            && output.instrs[name].range(..=sp.start).all(|(_, o)| o == "I32Const" || o == "Drop");
        if !(((sp.start == want_start || sp.start == alt_start) && sp.end == b.end) || ok_inserted) {
            return Ok(Some(format!("subprogram {name}: output range {:?}, the function's emitted entry is {:?} (body {:?})", sp, e, b)));
        }
    }
    // rows
    let kept: BTreeSet<u64> = facts.rows.iter().map(|(l, _)| *l).collect();
    for (line, (func, op)) in &lines {
        if removed_funcs.contains(func) || dead_lines.contains(line) { continue; }
        if !kept.contains(line) { return Ok(Some(format!("the row of line {line} (`{op}` of {func}) was lost"))); }
    }
    for (line, addr) in &facts.rows {
        let (func, op) = match lines.get(line) { Some(x) => x, None => return Ok(Some(format!("output row with unknown line {line}"))) };
        if removed_funcs.contains(func) || dead_lines.contains(line) {
            if in_any(*addr) { return Ok(Some(format!("line {line} belongs to removed code (`{op}` of {func}) but its row designates address {addr}, inside emitted code: {:?}", output.instrs.values().find_map(|m| m.get(addr))))); }
            continue;
        }
        match output.instrs[func].get(addr) {
            Some(o) if o == op => {}
            other => return Ok(Some(format!("row of line {line} (`{op}` of {func}) designates address {addr}: {:?} starts there in {func}", other))),
        }
    }
    // files: a row names the file it named, a subprogram is declared in the file it was declared in (by NAME: numbers may change)
    let (want_row_file, want_decl) = FILE_EXPECT.lock().unwrap().clone();
    for (line, _) in &facts.rows {
        if removed_funcs.contains(&lines[line].0) || dead_lines.contains(line) { continue; }
        match (want_row_file.get(line), facts.row_file.get(line)) {
            (Some(w), Some(g)) if w == g => {}
            (w, g) => return Ok(Some(format!("the row of line {line} named file {:?} in the input and names file {:?} in the output", w, g))),
        }
    }
    for (func, w) in &want_decl {
        if removed_funcs.contains(func) { continue; }
        match facts.decl_file.get(func) {
            Some(g) if g == w => {}
            g => return Ok(Some(format!("subprogram {func} was declared in {w} (DW_AT_decl_file) and is declared in {:?} in the output", g))),
        }
    }
    Ok(None)
}

pub fn dwarf(args: &[String]) -> Result<JValue> {
    if args.iter().any(|a| a == "loud") { } else { std::panic::set_hook(Box::new(|_| {})); }
    let mut failures = vec![];
    let mut checked = 0;
    for (version, file0, clang) in [(4u16, false, true), (4, false, false), (5, false, true), (5, true, true), (5, false, false), (5, true, false)] {
        ROWS_NAME_FILE0.store(file0, std::sync::atomic::Ordering::SeqCst);
        CLANG_FILE_LAYOUT.store(clang, std::sync::atomic::Ordering::SeqCst);
        for spanning in [false, true] {
            for scenario in ["unchanged", "gc", "inserted"] {
                for (ps, pb) in [(0usize, 45usize), (40, 45), (0, 3)] {
                    checked += 1;
                    let r = std::panic::catch_unwind(|| run(version, spanning, false, scenario, ps, pb));
                    // known finding F11: ONE line sequence spanning several functions is converted into one output sequence although walrus
                    // re-orders the functions: gimli's writer panics on the non-monotonic offsets, or -- when they happen to stay monotonic --
                    // rows end up at addresses where no instruction starts.  Every failure of a spanning case is that finding.
                    let key = if spanning { Some("C10:line-sequence-spanning-reordered-functions-panics") } else { None };
                    let what = match r { Ok(Ok(None)) => continue, Ok(Ok(Some(w))) => w, Ok(Err(e)) => format!("error: {e:#}"),
                        Err(_) => "panic during parse / emit with DWARF".into() };
                    let mut f = json!({"dwarf_version": version, "rows_name_file_0": file0, "file_1_is_a_copy_of_the_primary_file": clang, "one_sequence_spanning_all_functions": spanning, "scenario": scenario, "pads": [ps, pb], "what": what});
                    if let Some(k) = key { f["finding_key"] = json!(k); }
                    failures.push(f);
                }
            }
        }
    }
    ROWS_NAME_FILE0.store(false, std::sync::atomic::Ordering::SeqCst);
    CLANG_FILE_LAYOUT.store(true, std::sync::atomic::Ordering::SeqCst);
    // function counts around 128 (5 defined functions and 2 imports are always there): defined 125 / all 130; defined 127 / all 129 and
    // 130; defined 128 (127 after gc); defined 135
    for (extra_imports, extra_funcs) in [(3usize, 120usize), (0, 122), (1, 122), (0, 123), (0, 130)] {
        *EXTRA_FUNCTIONS.lock().unwrap() = (extra_imports, extra_funcs);
        for version in [4u16, 5] {
            for scenario in ["unchanged", "gc", "inserted"] {
                checked += 1;
                let r = std::panic::catch_unwind(|| run(version, false, false, scenario, 0, 45));
                let what = match r { Ok(Ok(None)) => continue, Ok(Ok(Some(w))) => w, Ok(Err(e)) => format!("error: {e:#}"), Err(_) => "panic during parse / emit with DWARF".into() };
                failures.push(json!({"dwarf_version": version, "extra_imported_functions": extra_imports, "extra_defined_functions": extra_funcs, "scenario": scenario, "what": what}));
            }
        }
    }
    *EXTRA_FUNCTIONS.lock().unwrap() = (0, 0);
    // F18 (repaired in /repo e8ad16a): a function whose first instruction is not re-emitted (a leading `nop`) and that declares no locals:
    // the anchor of its low_pc / of its line sequence is the edge of an instruction that is not in the instruction map; the function is
    // emitted, so its subprogram and its rows have to stay
    NOP_FIRST.store(true, std::sync::atomic::Ordering::SeqCst);
    for version in [4u16, 5] {
        for scenario in ["unchanged", "gc", "inserted"] {
            // (low_pc at the first byte of the body, where walrus's own edge classification expects it; a low_pc at the size prefix is
            // numerically the end of the previous function and is deliberately resolved to that end -- InclusiveFunctionEnd)
            for lowpc_at_entry in [false] {
                checked += 1;
                let r = std::panic::catch_unwind(|| run(version, false, lowpc_at_entry, scenario, 0, 45));
                let what = match r { Ok(Ok(None)) => continue, Ok(Ok(Some(w))) => w, Ok(Err(e)) => format!("error: {e:#}"), Err(_) => "panic during parse / emit with DWARF".into() };
                failures.push(json!({"dwarf_version": version, "function_with_leading_nop": true, "scenario": scenario, "low_pc_at_entry": lowpc_at_entry, "what": what}));
            }
        }
    }
    NOP_FIRST.store(false, std::sync::atomic::Ordering::SeqCst);
    let n_fail = failures.len();
    // (failures that are not a recorded finding first: the list is cut)
    failures.sort_by_key(|f| f.get("finding_key").is_some());
    failures.truncate(40);
    Ok(json!({"violated": !failures.is_empty(), "n_failures": n_fail, "cases_checked": checked, "failures": failures}))
}
