//! C17 battery: exhaustive short operation histories on the real collections against a reference model.
use anyhow::Result;
use serde_json::{json, Value};
use walrus::{ConstExpr, Module, ValType};

#[derive(Clone, Copy, Debug)]
enum Op {
    Add(usize),     // add type with signature k
    Delete(usize),  // delete the i-th identifier ever returned (skipped if not live)
    Name(usize),    // give the i-th identifier a debug name (skipped if not live)
}

fn sigs() -> Vec<(Vec<ValType>, Vec<ValType>)> {
    vec![(vec![], vec![]), (vec![ValType::I32], vec![]), (vec![ValType::I32], vec![ValType::I64, ValType::I32])]
}

fn run_types(history: &[Op]) -> std::result::Result<(), String> {
    let sg = sigs();
    let mut m = Module::default();
    // model: every identifier ever returned, with its signature and liveness
    let mut ids: Vec<walrus::TypeId> = vec![];
    let mut sig_of: Vec<usize> = vec![];
    let mut live: Vec<bool> = vec![];
    for (step, op) in history.iter().enumerate() {
        match *op {
            Op::Add(k) => {
                let id = m.types.add(&sg[k].0, &sg[k].1);
                let existing = (0..ids.len()).find(|&i| live[i] && sig_of[i] == k);
                match existing {
                    Some(i) => {
                        if ids[i] != id {
                            return Err(format!("step {step}: add of a present type returned {:?}, expected the existing {:?}", id, ids[i]));
                        }
                    }
                    None => {
                        if ids.contains(&id) {
                            return Err(format!("step {step}: add returned a recycled identifier {:?}", id));
                        }
                        ids.push(id);
                        sig_of.push(k);
                        live.push(true);
                    }
                }
            }
            Op::Delete(i) => {
                if i < ids.len() && live[i] {
                    m.types.delete(ids[i]);
                    live[i] = false;
                }
            }
            Op::Name(i) => {
                if i < ids.len() && live[i] {
                    m.types.get_mut(ids[i]).name = Some(format!("n{i}"));
                }
            }
        }
        // observations after every step
        let seen: Vec<walrus::TypeId> = m.types.iter().map(|t| t.id()).collect();
        let want: Vec<walrus::TypeId> = (0..ids.len()).filter(|&i| live[i]).map(|i| ids[i]).collect();
        if seen != want {
            return Err(format!("step {step}: iteration yields {:?}, live identifiers in creation order are {:?}", seen, want));
        }
        for i in 0..ids.len() {
            let id = ids[i];
            let r = std::panic::catch_unwind(std::panic::AssertUnwindSafe(|| {
                let t = m.types.get(id);
                (t.params().to_vec(), t.results().to_vec())
            }));
            match (live[i], r) {
                (true, Ok((p, r))) => {
                    if p != sg[sig_of[i]].0 || r != sg[sig_of[i]].1 {
                        return Err(format!("step {step}: identifier {:?} no longer denotes its type", id));
                    }
                }
                (true, Err(_)) => return Err(format!("step {step}: live identifier {:?} reported absent", id)),
                (false, Ok(_)) => return Err(format!("step {step}: deleted identifier {:?} still resolves", id)),
                (false, Err(_)) => {}
            }
        }
        for k in 0..sg.len() {
            let f = m.types.find(&sg[k].0, &sg[k].1);
            let want = (0..ids.len()).find(|&i| live[i] && sig_of[i] == k).map(|i| ids[i]);
            if f != want {
                return Err(format!("step {step}: find(sig {k}) = {:?}, expected {:?}", f, want));
            }
        }
    }
    Ok(())
}

#[derive(Clone, Copy, Debug)]
enum GOp {
    Add,
    Delete(usize),
}

fn run_globals(history: &[GOp]) -> std::result::Result<(), String> {
    let mut m = Module::default();
    let mut ids = vec![];
    let mut live: Vec<bool> = vec![];
    for (step, op) in history.iter().enumerate() {
        match *op {
            GOp::Add => {
                let v = ids.len() as i32;
                let id = m.globals.add_local(ValType::I32, false, false, ConstExpr::Value(walrus::ir::Value::I32(v)));
                if ids.contains(&id) {
                    return Err(format!("step {step}: recycled identifier {:?}", id));
                }
                ids.push(id);
                live.push(true);
                // exports share the arena implementation and are the public way to reach iter_mut
                m.exports.add(&format!("e{v}"), id);
            }
            GOp::Delete(i) => {
                if i < ids.len() && live[i] {
                    m.globals.delete(ids[i]);
                    let ex = m.exports.iter().find(|e| e.name == format!("e{i}")).map(|e| e.id());
                    if let Some(ex) = ex {
                        m.exports.delete(ex);
                    }
                    live[i] = false;
                }
            }
        }
        let seen: Vec<_> = m.globals.iter().map(|g| g.id()).collect();
        let want: Vec<_> = (0..ids.len()).filter(|&i| live[i]).map(|i| ids[i]).collect();
        if seen != want {
            return Err(format!("step {step}: globals.iter() yields {:?}, expected {:?}", seen, want));
        }
        let names: Vec<String> = m.exports.iter_mut().map(|e| e.name.clone()).collect();
        let wantn: Vec<String> = (0..ids.len()).filter(|&i| live[i]).map(|i| format!("e{i}")).collect();
        if names != wantn {
            return Err(format!("step {step}: exports.iter_mut() yields {:?}, expected {:?}", names, wantn));
        }
        let names2: Vec<String> = m.exports.iter().map(|e| e.name.clone()).collect();
        if names2 != wantn {
            return Err(format!("step {step}: exports.iter() yields {:?}, expected {:?}", names2, wantn));
        }
        for i in 0..ids.len() {
            let id = ids[i];
            let r = std::panic::catch_unwind(std::panic::AssertUnwindSafe(|| match &m.globals.get(id).kind {
                walrus::GlobalKind::Local(ConstExpr::Value(walrus::ir::Value::I32(v))) => *v,
                _ => -1,
            }));
            match (live[i], r) {
                (true, Ok(v)) if v == i as i32 => {}
                (true, Ok(v)) => return Err(format!("step {step}: identifier {:?} denotes item {v}, was created for item {i}", id)),
                (true, Err(_)) => return Err(format!("step {step}: live identifier {:?} reported absent", id)),
                (false, Ok(_)) => return Err(format!("step {step}: deleted identifier {:?} still resolves", id)),
                (false, Err(_)) => {}
            }
        }
    }
    Ok(())
}

/// `arena LEN`: all histories of length LEN (exhaustive)
pub fn arena(args: &[String]) -> Result<Value> {
    let len: usize = args.get(0).map(|s| s.parse().unwrap_or(5)).unwrap_or(5);
    std::panic::set_hook(Box::new(|_| {}));
    let mut alphabet = vec![];
    for k in 0..3 {
        alphabet.push(Op::Add(k));
    }
    for i in 0..3 {
        alphabet.push(Op::Delete(i));
    }
    for i in 0..2 {
        alphabet.push(Op::Name(i));
    }
    let mut failures = vec![];
    let mut n = 0usize;
    let total = alphabet.len().pow(len as u32);
    for code in 0..total {
        let mut c = code;
        let h: Vec<Op> = (0..len).map(|_| { let o = alphabet[c % alphabet.len()]; c /= alphabet.len(); o }).collect();
        n += 1;
        if let Err(e) = run_types(&h) {
            if failures.len() < 5 {
                failures.push(json!({"collection": "ModuleTypes", "history": format!("{:?}", h), "what": e}));
            }
        }
    }
    let galpha = vec![GOp::Add, GOp::Delete(0), GOp::Delete(1), GOp::Delete(2), GOp::Delete(3)];
    let glen = len + 2;
    let gtotal = galpha.len().pow(glen as u32);
    let mut gn = 0usize;
    for code in 0..gtotal {
        let mut c = code;
        let h: Vec<GOp> = (0..glen).map(|_| { let o = galpha[c % galpha.len()]; c /= galpha.len(); o }).collect();
        gn += 1;
        if let Err(e) = run_globals(&h) {
            if failures.len() < 10 {
                failures.push(json!({"collection": "ModuleGlobals/ModuleExports", "history": format!("{:?}", h), "what": e}));
            }
        }
    }
    // imports addressed by NAME: histories of add / remove(module, name) / find over a small alphabet of (module, name) pairs that
    // contains mirrored pairs ("a","b") / ("b","a") and repeated names; reference model: a list of (module, name, live)
    let pairs = [("a", "b"), ("b", "a"), ("a", "a"), ("m", "b")];
    let mut ialpha: Vec<(u8, usize)> = vec![];
    for k in 0..pairs.len() { ialpha.push((0, k)); ialpha.push((1, k)); }
    let ilen = len.min(5);
    let itotal = ialpha.len().pow(ilen as u32);
    let mut inn = 0usize;
    for code in 0..itotal {
        let mut c = code;
        let h: Vec<(u8, usize)> = (0..ilen).map(|_| { let o = ialpha[c % ialpha.len()]; c /= ialpha.len(); o }).collect();
        inn += 1;
        let r = std::panic::catch_unwind(|| -> std::result::Result<(), String> {
            let mut m = walrus::Module::default();
            let ty = m.types.add(&[], &[]);
            let mut model: Vec<(usize, walrus::ImportId, bool)> = vec![];
            for (step, (op, k)) in h.iter().enumerate() {
                let (md, nm) = pairs[*k];
                if *op == 0 {
                    let (_, id) = m.add_import_func(md, nm, ty);
                    model.push((*k, id, true));
                } else {
                    let want = model.iter().position(|(kk, _, live)| *kk == *k && *live);
                    let got = m.imports.remove(md, nm);
                    match (want, got.is_ok()) {
                        (Some(p), true) => model[p].2 = false,
                        (None, false) => {}
                        (Some(_), false) => return Err(format!("step {step}: remove({md:?}, {nm:?}) failed although such an import is live")),
                        (None, true) => return Err(format!("step {step}: remove({md:?}, {nm:?}) succeeded although no such import is live")),
                    }
                }
                // observations after every step: exactly the live imports of the model are iterated, in creation order, with their own names;
                // find(module, name) returns the first live import with that name pair
                let live: Vec<(String, String)> = m.imports.iter().map(|i| (i.module.clone(), i.name.clone())).collect();
                let expect: Vec<(String, String)> = model.iter().filter(|x| x.2).map(|x| (pairs[x.0].0.to_string(), pairs[x.0].1.to_string())).collect();
                if live != expect { return Err(format!("step {step}: live imports {live:?}, expected {expect:?}")); }
                for (kk, (md2, nm2)) in pairs.iter().enumerate() {
                    let f = m.imports.find(md2, nm2);
                    let w = model.iter().find(|x| x.0 == kk && x.2).map(|x| x.1);
                    if f != w { return Err(format!("step {step}: find({md2:?}, {nm2:?}) = {f:?}, expected {w:?}")); }
                }
            }
            Ok(())
        });
        let e = match r { Ok(Ok(())) => continue, Ok(Err(e)) => e, Err(_) => "panic".to_string() };
        if failures.len() < 12 { failures.push(json!({"collection": "ModuleImports by name", "history": format!("{:?}", h.iter().map(|(o, k)| (if *o == 0 { "add" } else { "remove" }, pairs[*k])).collect::<Vec<_>>()), "what": e})); }
    }
    Ok(json!({"violated": !failures.is_empty(), "type_histories": n, "global_histories": gn, "import_histories": inn, "length": len, "failures": failures}))
}
